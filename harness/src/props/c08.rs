//! C08 — modular and multi-word integer primitives are exact on their whole domain.
//!
//! E1 sections:
//!  * `word_small`    every modulus 2 <= q < 2^7 x every operand pair of the documented range
//!  * `word_boundary` boundary moduli up to 61 bits x boundary operands (incl. 128-bit inputs)
//!  * `multiword`     every helper of util::basic over W^len operand (pairs), len 1..4 (8 thorough)
//!  * `numtheory`     gcd / xgcd / inversion / naf on all pairs below 2^7 and the boundary set
//!  * `big_multi`     the multi-word helpers at production word counts (1..9, 15..17, 31..33, 63..65; 127..129 thorough) on
//!                    structured exhaustive families (single words, all-ones runs, one-word differences, every shift amount, every
//!                    denominator / modulus length, every (len1, len2) for products and mixed-length sums, 1..66 factors)
//!  * `big_word`      the word-level primitives that loop: multi-word reduction (1..129 words), dot products of every term count
//!                    1..300 at the edge of the 128-bit accumulator, exponents of every bit length 0..64

use crate::engine::*;
use crate::refmodel::bigu::*;
use heathcliff::util as hu;
use heathcliff::Modulus;
use serde::{Deserialize, Serialize};

pub fn describe(rep: &Report) {
    rep.set_rule(
        "case = (primitive, modulus) resp. (helper, word count); each case loops over ALL operand tuples of its alphabet \
         (traces_validated_against_impl counts the individual calls compared with u128 / BigU). non-trivial = at least one \
         operand tuple exercised a reduction / carry / borrow (result differs from the plain wrapped word operation).",
    );
    rep.assume("u128 arithmetic of rustc and the self-tested schoolbook BigU are the reference");
    rep.assume("documented operand ranges are taken from the doc comments of util::uintsmallmod (e.g. operands < q for add/sub, y < q for the operand form)");
    rep.assume("moduli above 2^7 are covered on a boundary set only (2^k, 2^k±1, 2^k±3, largest NTT primes of 59..61 bits)");
    rep.assume("word counts above 8 are covered on structured families only (big_multi: words from {0,1,2^63,2^64-1} at every position / every run / every one-word difference, plus one position-distinct fill), not on the full alphabet product");
    rep.assume("dot_product_mod is judged where the exact sum of the products fits 128 bits (its documented condition, that of barrett_reduce_128); shifts by less than 64*len bits; divide_uint_mod_inplace is not called with 3 or more words by the big sections (known finding word:divide_uint_mod_len3:*)");
}

#[derive(Serialize, Deserialize, Clone, Debug)]
pub struct WCase {
    pub func: String,
    pub q: u64,
}

#[derive(Serialize, Deserialize, Clone, Debug)]
pub struct MCase {
    pub func: String,
    pub len: usize,
    /// 0 = full alphabet W, 1 = reduced alphabet W'
    pub alpha: u8,
}

const WORD_FUNCS: &[&str] = &[
    "increment", "decrement", "negate", "div2", "add", "sub", "barrett64", "barrett128", "multiply", "operand_mul", "operand_mul_lazy",
    "multiply_add", "operand_mul_add", "modulo_uint", "modulo_uint_inplace", "try_invert", "exponentiate", "divide_uint_mod_len1", "divide_uint_mod_len2", "divide_uint_mod_len3", "dot_product",
    "modulus_new",
];


/// One primitive on one operand tuple. `a`,`b`,`c` are raw words; the function applies the
/// documented range filter itself (returns Ok(false) when outside the domain).
fn word_eval(func: &str, m: &Modulus, a: u64, b: u64, c: u64) -> Result<bool, (String, String, String)> {
    let q = m.value();
    let inp = || format!("q={q} a={a} b={b} c={c}");
    macro_rules! chk {
        ($obs:expr, $exp:expr) => {{
            let (o, e) = ($obs, $exp);
            if o != e {
                return Err((inp(), format!("{:?}", e), format!("{:?}", o)));
            }
            return Ok(true);
        }};
    }
    match func {
        "increment" => {
            if a > 2 * q - 2 {
                return Ok(false);
            }
            chk!(hu::increment_u64_mod(a, m), (a + 1) % q)
        }
        "decrement" => {
            if a > q - 1 {
                return Ok(false);
            }
            chk!(hu::decrement_u64_mod(a, m), (a + q - 1) % q)
        }
        "negate" => {
            if a > q {
                return Ok(false);
            }
            chk!(hu::negate_u64_mod(a, m), (q - a % q) % q)
        }
        "div2" => {
            // halving is defined for odd q (2 invertible); operand < q
            if q % 2 == 0 || a >= q {
                return Ok(false);
            }
            let inv2 = (q + 1) / 2;
            chk!(hu::div2_u64_mod(a, m), mul_mod(a, inv2, q))
        }
        "add" => {
            if a >= q || b >= q {
                return Ok(false);
            }
            chk!(hu::add_u64_mod(a, b, m), add_mod(a, b, q))
        }
        "sub" => {
            if a >= q || b >= q {
                return Ok(false);
            }
            chk!(hu::sub_u64_mod(a, b, m), sub_mod(a, b, q))
        }
        "barrett64" => chk!((hu::barrett_reduce_u64(a, m), m.reduce(a)), (a % q, a % q)),
        "barrett128" => {
            let v = (b as u128) << 64 | a as u128;
            chk!((hu::barrett_reduce_u128(&[a, b], m), m.reduce_u128(v)), ((v % q as u128) as u64, (v % q as u128) as u64))
        }
        "multiply" => chk!(hu::multiply_u64_mod(a, b, m), mul_mod(a, b, q)),
        "operand_mul" | "operand_mul_lazy" | "operand_mul_add" => {
            // y < q required, x arbitrary
            if b >= q {
                return Ok(false);
            }
            let y = hu::MultiplyU64ModOperand::new(b, m);
            let expq = (((b as u128) << 64) / q as u128) as u64;
            if y.operand != b || y.quotient != expq {
                return Err((inp(), format!("operand={b} quotient={expq}"), format!("operand={} quotient={}", y.operand, y.quotient)));
            }
            match func {
                "operand_mul" => chk!(hu::multiply_u64operand_mod(a, &y, m), mul_mod(a, b, q)),
                "operand_mul_lazy" => {
                    let r = hu::multiply_u64operand_mod_lazy(a, &y, m);
                    if r >= 2 * q || r % q != mul_mod(a, b, q) {
                        return Err((inp(), format!("congruent to {} and < {}", mul_mod(a, b, q), 2 * q), format!("{r}")));
                    }
                    Ok(true)
                }
                _ => chk!(hu::multiply_u64operand_add_u64_mod(a, &y, c, m), add_mod(mul_mod(a, b, q), c % q, q)),
            }
        }
        "multiply_add" => chk!(hu::multiply_add_u64_mod(a, b, c, m), ((a as u128 * b as u128 + c as u128) % q as u128) as u64),
        "modulo_uint" | "modulo_uint_inplace" => {
            // multi-word value built from the three words, all lengths 1..3
            for len in 1..=3usize {
                let words = [a, b, c];
                let v = &words[..len];
                let exp = BigU::from_limbs(v).rem_u64(q);
                if func == "modulo_uint" {
                    let o = hu::modulo_uint(v, m);
                    if o != exp {
                        return Err((format!("q={q} value={v:?}"), format!("{exp}"), format!("{o}")));
                    }
                } else {
                    let mut w = v.to_vec();
                    hu::modulo_uint_inplace(&mut w, m);
                    let mut e = vec![0u64; len];
                    e[0] = exp;
                    if w != e {
                        return Err((format!("q={q} value={v:?}"), format!("{e:?}"), format!("{w:?}")));
                    }
                }
            }
            Ok(true)
        }
        "try_invert" => {
            // undocumented range; the natural one (reduced operand) is used: the extended Euclid
            // behind it works on i64 and is not specified for operands above 2^63
            if a >= q {
                return Ok(false);
            }
            let mut r = 0u64;
            let ok = hu::try_invert_u64_mod(a, m, &mut r);
            let exp = if a == 0 { None } else { inv_mod_u64(a % q, q).filter(|_| gcd_ref(a, q) == 1) };
            match (ok, exp) {
                (true, Some(e)) => {
                    // a may exceed q: the inverse must still satisfy a*r = 1 (mod q), r < q
                    if r >= q || mul_mod(a % q, r, q) != 1 % q || (a < q && r != e) {
                        return Err((inp(), format!("Some({e})"), format!("Some({r})")));
                    }
                    Ok(true)
                }
                (false, None) => Ok(true),
                (o, e) => Err((inp(), format!("{e:?}"), format!("returned {o}, result {r}"))),
            }
        }
        "exponentiate" => {
            if a >= q {
                return Ok(false);
            }
            chk!(hu::exponentiate_u64_mod(a, b, m), if q == 1 { 0 } else { pow_mod(a, b, q) })
        }
        "divide_uint_mod_len1" | "divide_uint_mod_len2" | "divide_uint_mod_len3" => {
            let l: usize = func[func.len() - 1..].parse().unwrap();
            for len in l..=l {
                let words = [a, b, c];
                let mut num = words[..len].to_vec();
                let mut quo = vec![0u64; len];
                hu::divide_uint_mod_inplace(&mut num, m, &mut quo);
                let (eq, er) = BigU::from_limbs(&words[..len]).divrem(&BigU::from_u64(q));
                let eq = eq.limbs(len);
                if quo != eq || num[0] != er.to_u64().unwrap() {
                    return Err((
                        format!("q={q} numerator={:?}", &words[..len]),
                        format!("quotient={:?} remainder={}", eq, er.to_u64().unwrap()),
                        format!("quotient={:?} numerator[0]={}", quo, num[0]),
                    ));
                }
            }
            Ok(true)
        }
        "dot_product" => {
            // operands below 2^60 (user modulus range), count up to the documented accumulate bound
            let (x, y) = (a & ((1 << 60) - 1), b & ((1 << 60) - 1));
            for count in [1usize, 2, 3, 255, 256] {
                let v1 = vec![x; count];
                let v2 = vec![y; count];
                let exp = ((x as u128 * y as u128 % q as u128) * count as u128 % q as u128) as u64;
                let o = hu::dot_product_mod(&v1, &v2, m);
                if o != exp {
                    return Err((format!("q={q} x={x} y={y} count={count}"), format!("{exp}"), format!("{o}")));
                }
            }
            Ok(true)
        }
        "modulus_new" => {
            // constructor constants: floor(2^128/q) in two words + remainder, bit count, reduce
            let p128 = BigU::pow2(128);
            let (quo, rem) = p128.divrem(&BigU::from_u64(q));
            let e = [quo.low_limbs(2)[0], quo.low_limbs(2)[1], rem.to_u64().unwrap()];
            let bits = 64 - q.leading_zeros() as usize;
            let o = *m.const_ratio();
            if o != e || m.bit_count() != bits || m.is_prime() != is_prime_u64(q) || m.value() != q {
                return Err((
                    format!("q={q}"),
                    format!("ratio={e:?} bits={bits} prime={}", is_prime_u64(q)),
                    format!("ratio={o:?} bits={} prime={}", m.bit_count(), m.is_prime()),
                ));
            }
            Ok(true)
        }
        _ => panic!("unknown word func {func}"),
    }
}

fn gcd_ref(mut a: u64, mut b: u64) -> u64 {
    while b != 0 {
        (a, b) = (b, a % b);
    }
    a
}

fn arity(func: &str) -> usize {
    match func {
        "increment" | "decrement" | "negate" | "div2" | "barrett64" | "try_invert" => 1,
        "modulus_new" => 0,
        "multiply_add" | "operand_mul_add" | "modulo_uint" | "modulo_uint_inplace" | "divide_uint_mod_len3" => 3,
        "divide_uint_mod_len1" => 1,
        _ => 2,
    }
}

fn run_word(c: &WCase, ops_a: &[u64], ops_b: &[u64], ops_c: &[u64]) -> CaseOut {
    let m = match guard(|| Modulus::new(c.q)) {
        Ok(m) => m,
        Err(p) => return CaseOut::fail(format!("word:{}:modulus_new_panic", c.func), "Modulus::new accepts 2..61-bit values", p),
    };
    let ar = arity(&c.func);
    let one = [0u64];
    let (la, lb, lc): (&[u64], &[u64], &[u64]) = (if ar >= 1 { ops_a } else { &one }, if ar >= 2 { ops_b } else { &one }, if ar >= 3 { ops_c } else { &one });
    let mut steps = 0u64;
    let mut outcome = 0u64;
    for &a in la {
        for &b in lb {
            for &cc in lc {
                let r = guard(|| word_eval(&c.func, &m, a, b, cc));
                match r {
                    Ok(Ok(true)) => {
                        steps += 1;
                        outcome = outcome.wrapping_mul(31).wrapping_add(a ^ b.rotate_left(7) ^ cc.rotate_left(13));
                    }
                    Ok(Ok(false)) => {}
                    Ok(Err((inp, exp, obs))) => {
                        return CaseOut::fail(format!("word:{}:wrong", c.func), format!("{} -> {}", inp, exp), obs);
                    }
                    Err(p) => {
                        return CaseOut::fail(
                            format!("word:{}:panic:{}", c.func, panic_class(&p)),
                            format!("no panic for q={} a={a} b={b} c={cc}", c.q),
                            p,
                        );
                    }
                }
            }
        }
    }
    CaseOut { nontrivial: steps > 0, outcome: h64(&(c.func.as_str(), steps, outcome % 64)), steps, verdict: if steps > 0 { Verdict::Pass } else { Verdict::Skip("empty domain".into()) } }
}

fn small_ops(q: u64) -> Vec<u64> {
    // every value of the widest documented range (<= 2q) plus 8-bit patterns at the top of the word
    let mut v: Vec<u64> = (0..=2 * q).collect();
    for p in [1u64, 0x55, 0xAA, 0xFF] {
        v.push(p << 56);
        v.push(u64::MAX - p);
    }
    v.push(u64::MAX);
    v
}

pub fn boundary_moduli() -> Vec<u64> {
    let mut v = vec![];
    for k in 2..=61u32 {
        let p = 1u64 << k;
        for d in [-3i64, -1, 0, 1, 3] {
            let x = (p as i64 + d) as u64;
            if x >= 2 && x < (1u64 << 61) {
                v.push(x);
            }
        }
    }
    for bits in [59usize, 60, 61] {
        v.extend(primes_1_mod(1 << 14, bits, 2));
    }
    // moduli for which 2^64 or 2^128 is congruent to +-1: the fractional part of 2^128 / q is then as close to 0 or 1 as it gets,
    // the worst case of a Barrett quotient estimate (prime factors of 2^32+1, 2^64-1, 2^64+1, 2^128+1 below 2^61; seeded round 4, C08-H)
    v.extend([3u64, 5, 17, 257, 641, 65537, 274177, 6700417, 67280421310721, 59649589127497217]);
    v.sort();
    v.dedup();
    v
}

/// 128-bit inputs at the top of the range of a reduction: the last multiples of q below 2^128, 2^127, 2^97, 2^96, 2^65, 2^64
/// and their neighbours (d = 0, 1, 2, q/2, q-2, q-1 above the multiple, and the same below the next one)
fn top_multiples(q: u64) -> Vec<u128> {
    let q = q as u128;
    let mut v: Vec<u128> = vec![];
    for k in [128u32, 127, 97, 96, 65, 64] {
        let lim: u128 = if k == 128 { u128::MAX } else { (1u128 << k) - 1 };
        let top = lim / q * q;
        for base in [top, top.saturating_sub(q)] {
            for d in [0u128, 1, 2, q / 2, q.saturating_sub(2), q - 1] {
                if let Some(x) = base.checked_add(d) {
                    v.push(x);
                }
            }
        }
        v.push(lim);
    }
    v.sort_unstable();
    v.dedup();
    v
}

fn boundary_ops(q: u64) -> Vec<u64> {
    let mut v = vec![0, 1, 2, q / 2, (q + 1) / 2, q.saturating_sub(2), q - 1, q, q + 1, 2 * q - 2, 2 * q - 1, 2 * q, 1 << 63, u64::MAX, u64::MAX - 1, (1 << 60) - 1, 1 << 32, (1 << 32) - 1];
    v.sort();
    v.dedup();
    v
}

// ------------------------------------------------------------------------------------------
// multi-word helpers
// ------------------------------------------------------------------------------------------

const W: [u64; 6] = [0, 1, 1 << 63, u64::MAX, 0x5555_5555_5555_5555, 0xAAAA_AAAA_AAAA_AAAA];
const W2: [u64; 3] = [0, 1, u64::MAX];

const MULTI_FUNCS: &[&str] = &[
    "bits", "add", "add_carry", "add_u64", "sub", "sub_borrow", "sub_u64", "incdec", "negate", "shift_left", "shift_right", "shift128", "shift192", "half_round_up",
    "logic", "multiply_u64", "multiply", "multiply_many", "divide", "divide_u192", "compare", "mod_incdecneg", "mod_addsub", "mod_div2",
];

fn all_words(len: usize, alpha: &[u64]) -> Vec<Vec<u64>> {
    let mut out = vec![vec![]];
    for _ in 0..len {
        let mut next = Vec::with_capacity(out.len() * alpha.len());
        for v in &out {
            for &w in alpha {
                let mut x = v.clone();
                x.push(w);
                next.push(x);
            }
        }
        out = next;
    }
    out
}

fn wrap(b: &BigU, len: usize) -> Vec<u64> {
    b.low_limbs(len)
}
fn pow2w(len: usize) -> BigU {
    BigU::pow2(64 * len)
}

/// All checks of one helper family on one operand pair; returns the number of calls compared.
fn multi_eval(func: &str, a: &[u64], b: &[u64]) -> Result<u64, (String, String, String)> {
    let len = a.len();
    let (ba, bb) = (BigU::from_limbs(a), BigU::from_limbs(b));
    let inp = || format!("a={a:x?} b={b:x?}");
    let mut n = 0u64;
    macro_rules! chk {
        ($what:expr, $obs:expr, $exp:expr) => {{
            let (o, e) = ($obs, $exp);
            n += 1;
            if o != e {
                return Err((format!("{} {}", $what, inp()), format!("{:x?}", e), format!("{:x?}", o)));
            }
        }};
    }
    match func {
        "bits" => {
            chk!("get_significant_bit_count_uint", hu::get_significant_bit_count_uint(a), ba.bits());
            chk!("get_significant_uint64_count_uint", hu::get_significant_uint64_count_uint(a), ba.0.len());
            chk!("get_nonzero_uint64_count_uint", hu::get_nonzero_uint64_count_uint(a), a.iter().filter(|&&x| x != 0).count());
            chk!("is_zero_uint", hu::is_zero_uint(a), ba.is_zero());
            chk!("get_significant_bit_count", hu::get_significant_bit_count(a[0]), 64 - a[0].leading_zeros() as usize);
            chk!("get_power_of_two", hu::get_power_of_two(a[0]), if a[0].is_power_of_two() { a[0].trailing_zeros() as isize } else { -1 });
            for bc in [1usize, 7, 32, 33, 64] {
                let e = if bc == 64 { a[0].reverse_bits() } else { (a[0] & ((1u64 << bc) - 1)).reverse_bits() >> (64 - bc) };
                if bc == 64 || a[0] >> bc == 0 {
                    chk!("reverse_bits_u64", hu::reverse_bits_u64(a[0], bc), e);
                }
            }
            for i in 0..64 * len {
                let mut v = a.to_vec();
                hu::set_bit_uint(&mut v, i);
                let mut e = a.to_vec();
                e[i / 64] |= 1u64 << (i % 64);
                chk!(format!("set_bit_uint bit={i}"), v, e);
            }
        }
        "add" => {
            let s = ba.add(&bb);
            let carry = (s >= pow2w(len)) as u8;
            let mut r = vec![0u64; len];
            chk!("add_uint carry", hu::add_uint(a, b, &mut r), carry);
            chk!("add_uint", r.clone(), wrap(&s, len));
            let mut x = a.to_vec();
            chk!("add_uint_inplace carry", hu::add_uint_inplace(&mut x, b), carry);
            chk!("add_uint_inplace", x, wrap(&s, len));
            if len == 2 {
                let mut r = [0u64; 2];
                chk!("add_u128 carry", hu::add_u128(a, b, &mut r), carry);
                chk!("add_u128", r.to_vec(), wrap(&s, 2));
                let mut x = [a[0], a[1]];
                chk!("add_u128_inplace carry", hu::add_u128_inplace(&mut x, b), carry);
                chk!("add_u128_inplace", x.to_vec(), wrap(&s, 2));
            }
            if len == 1 {
                let mut r = 0u64;
                chk!("add_u64 carry", hu::add_u64(a[0], b[0], &mut r), carry);
                chk!("add_u64", r, wrap(&s, 1)[0]);
            }
        }
        "add_carry" => {
            for c in 0..=1u8 {
                let s = ba.add(&bb).add(&BigU::from_u64(c as u64));
                // result one word longer, and operands shorter than the result
                for rl in [len, len + 1] {
                    let mut r = vec![0u64; rl];
                    let carry = (s >= pow2w(rl)) as u8;
                    chk!(format!("add_uint_carry c={c} rl={rl} carry"), hu::add_uint_carry(a, b, c, &mut r), carry);
                    chk!(format!("add_uint_carry c={c} rl={rl}"), r, wrap(&s, rl));
                }
                let mut x = a.to_vec();
                let carry = (s >= pow2w(len)) as u8;
                chk!(format!("add_uint_carry_inplace c={c} carry"), hu::add_uint_carry_inplace(&mut x, b, c), carry);
                chk!(format!("add_uint_carry_inplace c={c}"), x, wrap(&s, len));
                if len == 1 {
                    let mut r = 0u64;
                    chk!(format!("add_u64_carry c={c} carry"), hu::add_u64_carry(a[0], b[0], c, &mut r), carry);
                    chk!(format!("add_u64_carry c={c}"), r, wrap(&s, 1)[0]);
                }
            }
        }
        "add_u64" => {
            let s = ba.add(&BigU::from_u64(b[0]));
            let carry = (s >= pow2w(len)) as u8;
            let mut r = vec![0u64; len];
            chk!("add_uint_u64 carry", hu::add_uint_u64(a, b[0], &mut r), carry);
            chk!("add_uint_u64", r, wrap(&s, len));
            let mut x = a.to_vec();
            chk!("add_uint_u64_inplace carry", hu::add_uint_u64_inplace(&mut x, b[0]), carry);
            chk!("add_uint_u64_inplace", x, wrap(&s, len));
        }
        "sub" | "sub_borrow" | "sub_u64" => {
            let sub_ref = |x: &BigU, y: &BigU, l: usize| -> (Vec<u64>, u8) {
                if x >= y {
                    (wrap(&x.sub(y), l), 0)
                } else {
                    (wrap(&pow2w(l).add(x).sub(y), l), 1)
                }
            };
            match func {
                "sub" => {
                    let (e, bo) = sub_ref(&ba, &bb, len);
                    let mut r = vec![0u64; len];
                    chk!("sub_uint borrow", hu::sub_uint(a, b, &mut r), bo);
                    chk!("sub_uint", r, e.clone());
                    let mut x = a.to_vec();
                    chk!("sub_uint_inplace borrow", hu::sub_uint_inplace(&mut x, b), bo);
                    chk!("sub_uint_inplace", x, e.clone());
                    if len == 1 {
                        let mut r = 0u64;
                        chk!("sub_u64 borrow", hu::sub_u64(a[0], b[0], &mut r), bo);
                        chk!("sub_u64", r, e[0]);
                    }
                }
                "sub_borrow" => {
                    for c in 0..=1u8 {
                        let y = bb.add(&BigU::from_u64(c as u64));
                        let (e, bo) = sub_ref(&ba, &y, len);
                        let mut r = vec![0u64; len];
                        chk!(format!("sub_uint_borrow c={c} borrow"), hu::sub_uint_borrow(a, b, c, &mut r), bo);
                        chk!(format!("sub_uint_borrow c={c}"), r, e.clone());
                        let mut x = a.to_vec();
                        chk!(format!("sub_uint_borrow_inplace c={c} borrow"), hu::sub_uint_borrow_inplace(&mut x, b, c), bo);
                        chk!(format!("sub_uint_borrow_inplace c={c}"), x, e.clone());
                        if len == 1 {
                            let mut r = 0u64;
                            chk!(format!("sub_u64_borrow c={c} borrow"), hu::sub_u64_borrow(a[0], b[0], c, &mut r), bo);
                            chk!(format!("sub_u64_borrow c={c}"), r, e[0]);
                        }
                    }
                }
                _ => {
                    let (e, bo) = sub_ref(&ba, &BigU::from_u64(b[0]), len);
                    let mut r = vec![0u64; len];
                    chk!("sub_uint_u64 borrow", hu::sub_uint_u64(a, b[0], &mut r), bo);
                    chk!("sub_uint_u64", r, e.clone());
                    let mut x = a.to_vec();
                    chk!("sub_uint_u64_inplace borrow", hu::sub_uint_u64_inplace(&mut x, b[0]), bo);
                    chk!("sub_uint_u64_inplace", x, e);
                }
            }
        }
        "incdec" => {
            let s = ba.add(&BigU::one());
            let mut r = vec![0u64; len];
            chk!("increment_uint carry", hu::increment_uint(a, &mut r), (s >= pow2w(len)) as u8);
            chk!("increment_uint", r, wrap(&s, len));
            let mut x = a.to_vec();
            chk!("increment_uint_inplace carry", hu::increment_uint_inplace(&mut x), (s >= pow2w(len)) as u8);
            chk!("increment_uint_inplace", x, wrap(&s, len));
            let (e, bo) = if ba.is_zero() { (vec![u64::MAX; len], 1u8) } else { (wrap(&ba.sub(&BigU::one()), len), 0) };
            let mut r = vec![0u64; len];
            chk!("decrement_uint borrow", hu::decrement_uint(a, &mut r), bo);
            chk!("decrement_uint", r, e.clone());
            let mut x = a.to_vec();
            chk!("decrement_uint_inplace borrow", hu::decrement_uint_inplace(&mut x), bo);
            chk!("decrement_uint_inplace", x, e);
        }
        "negate" => {
            let e = if ba.is_zero() { vec![0u64; len] } else { wrap(&pow2w(len).sub(&ba), len) };
            let mut r = vec![0u64; len];
            hu::negate_uint(a, &mut r);
            chk!("negate_uint", r, e.clone());
            let mut x = a.to_vec();
            hu::negate_uint_inplace(&mut x);
            chk!("negate_uint_inplace", x, e);
        }
        "shift_left" | "shift_right" => {
            for s in 0..64 * len {
                if func == "shift_left" {
                    let e = wrap(&ba.shl(s), len);
                    let mut r = vec![0xDEADu64; len];
                    hu::left_shift_uint(a, s, len, &mut r);
                    chk!(format!("left_shift_uint s={s}"), r, e.clone());
                    let mut x = a.to_vec();
                    hu::left_shift_uint_inplace(&mut x, s, len);
                    chk!(format!("left_shift_uint_inplace s={s}"), x, e);
                } else {
                    let e = wrap(&ba.shr(s), len);
                    let mut r = vec![0xDEADu64; len];
                    hu::right_shift_uint(a, s, len, &mut r);
                    chk!(format!("right_shift_uint s={s}"), r, e.clone());
                    let mut x = a.to_vec();
                    hu::right_shift_uint_inplace(&mut x, s, len);
                    chk!(format!("right_shift_uint_inplace s={s}"), x, e);
                }
            }
        }
        "shift128" => {
            if len != 2 {
                return Ok(0);
            }
            for s in 0..128 {
                let e = wrap(&ba.shl(s), 2);
                let mut r = [0xDEADu64; 2];
                hu::left_shift_u128(a, s, &mut r);
                chk!(format!("left_shift_u128 s={s}"), r.to_vec(), e.clone());
                let mut x = [a[0], a[1]];
                hu::left_shift_u128_inplace(&mut x, s);
                chk!(format!("left_shift_u128_inplace s={s}"), x.to_vec(), e);
                let e = wrap(&ba.shr(s), 2);
                let mut r = [0xDEADu64; 2];
                hu::right_shift_u128(a, s, &mut r);
                chk!(format!("right_shift_u128 s={s}"), r.to_vec(), e.clone());
                let mut x = [a[0], a[1]];
                hu::right_shift_u128_inplace(&mut x, s);
                chk!(format!("right_shift_u128_inplace s={s}"), x.to_vec(), e);
            }
        }
        "shift192" => {
            if len != 3 {
                return Ok(0);
            }
            for s in 0..192 {
                let e = wrap(&ba.shl(s), 3);
                let mut r = [0xDEADu64; 3];
                hu::left_shift_u192(a, s, &mut r);
                chk!(format!("left_shift_u192 s={s}"), r.to_vec(), e.clone());
                let mut x = [a[0], a[1], a[2]];
                hu::left_shift_u192_inplace(&mut x, s);
                chk!(format!("left_shift_u192_inplace s={s}"), x.to_vec(), e);
                let e = wrap(&ba.shr(s), 3);
                let mut r = [0xDEADu64; 3];
                hu::right_shift_u192(a, s, &mut r);
                chk!(format!("right_shift_u192 s={s}"), r.to_vec(), e.clone());
                let mut x = [a[0], a[1], a[2]];
                hu::right_shift_u192_inplace(&mut x, s);
                chk!(format!("right_shift_u192_inplace s={s}"), x.to_vec(), e);
            }
        }
        "half_round_up" => {
            let e = wrap(&ba.add(&BigU::one()).shr(1), len);
            let mut r = vec![0xDEADu64; len];
            hu::half_round_up_uint(a, &mut r);
            chk!("half_round_up_uint", r, e.clone());
            let mut x = a.to_vec();
            hu::half_round_up_uint_inplace(&mut x);
            chk!("half_round_up_uint_inplace", x, e);
        }
        "logic" => {
            let mut r = vec![0u64; len];
            hu::not_uint(a, &mut r);
            chk!("not_uint", r.clone(), a.iter().map(|x| !x).collect::<Vec<_>>());
            let mut x = a.to_vec();
            hu::not_uint_inplace(&mut x);
            chk!("not_uint_inplace", x, a.iter().map(|x| !x).collect::<Vec<_>>());
            hu::and_uint(a, b, &mut r);
            chk!("and_uint", r.clone(), a.iter().zip(b).map(|(x, y)| x & y).collect::<Vec<_>>());
            hu::or_uint(a, b, &mut r);
            chk!("or_uint", r.clone(), a.iter().zip(b).map(|(x, y)| x | y).collect::<Vec<_>>());
            hu::xor_uint(a, b, &mut r);
            chk!("xor_uint", r.clone(), a.iter().zip(b).map(|(x, y)| x ^ y).collect::<Vec<_>>());
            let mut x = a.to_vec();
            hu::and_uint_inplace(&mut x, b);
            chk!("and_uint_inplace", x, a.iter().zip(b).map(|(x, y)| x & y).collect::<Vec<_>>());
            let mut x = a.to_vec();
            hu::or_uint_inplace(&mut x, b);
            chk!("or_uint_inplace", x, a.iter().zip(b).map(|(x, y)| x | y).collect::<Vec<_>>());
            let mut x = a.to_vec();
            hu::xor_uint_inplace(&mut x, b);
            chk!("xor_uint_inplace", x, a.iter().zip(b).map(|(x, y)| x ^ y).collect::<Vec<_>>());
            let mut t = vec![0xDEADu64; len];
            hu::set_uint(a, len, &mut t);
            chk!("set_uint", t.clone(), a.to_vec());
            hu::set_zero_uint(&mut t);
            chk!("set_zero_uint", t, vec![0u64; len]);
        }
        "multiply_u64" => {
            let p = ba.mul_u64(b[0]);
            for rl in [1usize, len, len + 1, len + 2, len + 4] {
                let mut r = vec![0xDEADu64; rl];
                hu::multiply_uint_u64(a, b[0], &mut r);
                chk!(format!("multiply_uint_u64 result_len={rl}"), r, wrap(&p, rl));
            }
            let mut x = a.to_vec();
            hu::multiply_uint_u64_inplace(&mut x, b[0]);
            chk!("multiply_uint_u64_inplace", x, wrap(&p, len));
            if len == 1 {
                let mut r = [0u64; 2];
                hu::multiply_u64_u64(a[0], b[0], &mut r);
                chk!("multiply_u64_u64", r.to_vec(), wrap(&p, 2));
                let mut h = 0u64;
                hu::multiply_u64_high_word(a[0], b[0], &mut h);
                chk!("multiply_u64_high_word", h, wrap(&p, 2)[1]);
            }
        }
        "multiply" => {
            let p = ba.mul(&bb);
            // also result buffers LONGER than len1+len2 (pre-filled): the words above the product must be cleared
            // (added after seeded change C08-D)
            for rl in [1usize, len, 2 * len, 2 * len + 1, 2 * len + 3] {
                let mut r = vec![0xDEADu64; rl];
                hu::multiply_uint(a, b, &mut r);
                chk!(format!("multiply_uint result_len={rl}"), r, wrap(&p, rl));
            }
        }
        "multiply_many" => {
            // operands = words of a followed by words of b
            let mut ops = a.to_vec();
            ops.extend_from_slice(b);
            let mut p = BigU::one();
            for &o in &ops {
                p = p.mul_u64(o);
            }
            let mut r = vec![0xDEADu64; ops.len()];
            hu::multiply_many_u64(&ops, &mut r);
            chk!("multiply_many_u64", r, wrap(&p, ops.len()));
        }
        "divide" => {
            if bb.is_zero() {
                return Ok(0);
            }
            let (eq, er) = ba.divrem(&bb);
            let mut num = a.to_vec();
            let mut quo = vec![0xDEADu64; len];
            hu::divide_uint_inplace(&mut num, b, &mut quo);
            chk!("divide_uint_inplace quotient", quo, eq.limbs(len));
            chk!("divide_uint_inplace remainder", num, er.limbs(len));
            let mut quo = vec![0xDEADu64; len];
            let mut rem = vec![0xDEADu64; len];
            hu::divide_uint(a, b, &mut quo, &mut rem);
            chk!("divide_uint quotient", quo, eq.limbs(len));
            chk!("divide_uint remainder", rem, er.limbs(len));
            chk!("divide_round_up_usize", hu::divide_round_up_usize((a[0] >> 8) as usize, ((b[0] >> 8) as usize).max(1)), (((a[0] >> 8) as u128 + ((b[0] >> 8) as u128).max(1) - 1) / ((b[0] >> 8) as u128).max(1)) as usize);
        }
        "divide_u192" => {
            if len != 3 {
                return Ok(0);
            }
            // denominators: every word of b that is non-zero, plus every bit length via shifts of b[0]
            let mut dens: Vec<u64> = b.iter().copied().filter(|&x| x != 0).collect();
            for s in [1u32, 31, 32, 33, 62, 63] {
                if b[0] >> s != 0 {
                    dens.push(b[0] >> s);
                }
            }
            for d in dens {
                let (eq, er) = ba.divrem(&BigU::from_u64(d));
                let mut num = a.to_vec();
                let mut quo = [0xDEADu64; 3];
                hu::divide_u192_u64_inplace(&mut num, d, &mut quo);
                chk!(format!("divide_u192_u64_inplace d={d:#x} quotient"), quo.to_vec(), eq.limbs(3));
                chk!(format!("divide_u192_u64_inplace d={d:#x} remainder"), num, er.limbs(3));
                if a[2] == 0 {
                    let mut num = [a[0], a[1]];
                    let mut quo = [0xDEADu64; 2];
                    hu::divide_u128_u64_inplace(&mut num, d, &mut quo);
                    chk!(format!("divide_u128_u64_inplace d={d:#x} quotient"), quo.to_vec(), eq.limbs(2));
                    chk!(format!("divide_u128_u64_inplace d={d:#x} remainder"), num.to_vec(), er.limbs(2));
                }
            }
        }
        "compare" => {
            let e = ba.cmp(&bb);
            chk!("compare_uint", hu::compare_uint(a, b), e);
            chk!("is_greater_than_uint", hu::is_greater_than_uint(a, b), e == std::cmp::Ordering::Greater);
            chk!("is_greater_than_or_equal_uint", hu::is_greater_than_or_equal_uint(a, b), e != std::cmp::Ordering::Less);
            chk!("is_less_than_uint", hu::is_less_than_uint(a, b), e == std::cmp::Ordering::Less);
            chk!("is_less_than_or_equal_uint", hu::is_less_than_or_equal_uint(a, b), e != std::cmp::Ordering::Greater);
            chk!("is_equal_uint", hu::is_equal_uint(a, b), e == std::cmp::Ordering::Equal);
            // different lengths
            let mut a2 = a.to_vec();
            a2.push(0);
            chk!("compare_uint (longer, zero-extended)", hu::compare_uint(&a2, b), e);
            chk!("compare_uint (shorter vs zero-extended)", hu::compare_uint(b, &a2), e.reverse());
        }
        "mod_incdecneg" | "mod_addsub" | "mod_div2" => {
            // b is the modulus (non-zero), a is reduced into range first
            if bb.is_zero() || bb == BigU::one() {
                return Ok(0);
            }
            let x = ba.rem(&bb);
            let xa = x.limbs(len);
            match func {
                "mod_incdecneg" => {
                    let mut r = vec![0xDEADu64; len];
                    hu::increment_uint_mod(&xa, b, &mut r);
                    chk!("increment_uint_mod", r.clone(), x.add(&BigU::one()).rem(&bb).limbs(len));
                    hu::decrement_uint_mod(&xa, b, &mut r);
                    chk!("decrement_uint_mod", r.clone(), x.add(&bb).sub(&BigU::one()).rem(&bb).limbs(len));
                    hu::negate_uint_mod(&xa, b, &mut r);
                    chk!("negate_uint_mod", r.clone(), bb.sub(&x).rem(&bb).limbs(len));
                }
                "mod_div2" => {
                    if b[0] & 1 == 0 {
                        return Ok(0);
                    }
                    let mut r = vec![0xDEADu64; len];
                    hu::div2_uint_mod(&xa, b, &mut r);
                    let e = if xa[0] & 1 == 1 { x.add(&bb).shr(1) } else { x.shr(1) };
                    chk!(format!("div2_uint_mod x={xa:x?}"), r, e.limbs(len));
                }
                _ => {
                    // second operand: a rotated by one word, reduced
                    let mut rot = a.to_vec();
                    rot.rotate_left(1);
                    let y = BigU::from_limbs(&rot).rem(&bb);
                    let ya = y.limbs(len);
                    let mut r = vec![0xDEADu64; len];
                    hu::add_uint_mod(&xa, &ya, b, &mut r);
                    chk!(format!("add_uint_mod y={ya:x?}"), r.clone(), x.add(&y).rem(&bb).limbs(len));
                    let mut xi = xa.clone();
                    hu::add_uint_mod_inplace(&mut xi, &ya, b);
                    chk!(format!("add_uint_mod_inplace y={ya:x?}"), xi, x.add(&y).rem(&bb).limbs(len));
                    hu::sub_uint_mod(&xa, &ya, b, &mut r);
                    chk!(format!("sub_uint_mod y={ya:x?}"), r.clone(), x.add(&bb).sub(&y).rem(&bb).limbs(len));
                }
            }
        }
        _ => panic!("unknown multi func {func}"),
    }
    Ok(n)
}

fn multi_key(func: &str, what: &str) -> String {
    // "<helper name> <parameters> a=.. b=.." -> helper name only
    let helper = what.split_whitespace().next().unwrap_or("?");
    format!("multi:{func}:{helper}")
}

fn run_multi(c: &MCase) -> CaseOut {
    let alpha: &[u64] = if c.alpha == 0 { &W } else { &W2 };
    let ops = all_words(c.len, alpha);
    let unary = matches!(c.func.as_str(), "bits" | "incdec" | "negate" | "shift_left" | "shift_right" | "shift128" | "shift192" | "half_round_up");
    let zero = vec![vec![0u64; c.len]];
    let second: &Vec<Vec<u64>> = if unary { &zero } else { &ops };
    let mut steps = 0u64;
    for a in &ops {
        for b in second {
            match guard(|| multi_eval(&c.func, a, b)) {
                Ok(Ok(n)) => steps += n,
                Ok(Err((what, exp, obs))) => return CaseOut::fail(multi_key(&c.func, &what), format!("{what} -> {exp}"), obs),
                Err(p) => {
                    return CaseOut::fail(
                        format!("multi:{}:panic:{}", c.func, panic_class(&p)),
                        format!("no panic for a={a:x?} b={b:x?}"),
                        p,
                    )
                }
            }
        }
    }
    CaseOut { nontrivial: steps > 0, outcome: h64(&(c.func.as_str(), c.len, steps)), steps, verdict: if steps > 0 { Verdict::Pass } else { Verdict::Skip("not applicable at this length".into()) } }
}

// ------------------------------------------------------------------------------------------
// number theory
// ------------------------------------------------------------------------------------------

#[derive(Serialize, Deserialize, Clone, Debug)]
pub struct NCase {
    pub func: String,
    pub x: u64,
}

fn run_nt(c: &NCase, ys: &[u64]) -> CaseOut {
    let x = c.x;
    let mut steps = 0;
    for &y in ys {
        let r = guard(|| -> Result<(), (String, String)> {
            match c.func.as_str() {
                "gcd" => {
                    if x == 0 && y == 0 {
                        return Ok(());
                    }
                    let g = hu::gcd(x, y);
                    if g != gcd_ref(x, y) {
                        return Err((format!("{}", gcd_ref(x, y)), format!("{g}")));
                    }
                    if hu::are_coprime(x, y) != (gcd_ref(x, y) == 1) {
                        return Err((format!("coprime={}", gcd_ref(x, y) == 1), format!("{}", hu::are_coprime(x, y))));
                    }
                }
                "xgcd" => {
                    if x == 0 || y == 0 || x >= 1 << 62 || y >= 1 << 62 {
                        return Ok(());
                    }
                    let (g, a, b) = hu::xgcd(x, y);
                    let lhs = a as i128 * x as i128 + b as i128 * y as i128;
                    if g != gcd_ref(x, y) || lhs != g as i128 {
                        return Err((format!("g={} and a*x+b*y=g", gcd_ref(x, y)), format!("g={g} a={a} b={b} a*x+b*y={lhs}")));
                    }
                }
                "invert" => {
                    // try_invert_u64_mod_u64(value, modulus)
                    if y < 2 || y >= 1 << 62 || x >= 1 << 62 {
                        return Ok(());
                    }
                    let mut r = 0u64;
                    let ok = hu::try_invert_u64_mod_u64(x, y, &mut r);
                    let e = if x == 0 { None } else { inv_mod_u64(x % y, y).filter(|_| gcd_ref(x, y) == 1) };
                    match (ok, e) {
                        (false, None) => {}
                        (true, Some(_)) if r < y && mul_mod(x % y, r, y) == 1 % y => {}
                        _ => return Err((format!("{e:?}"), format!("ok={ok} result={r}"))),
                    }
                }
                "naf" => {
                    // y unused beyond the first
                    let v = x as i64 as i32;
                    if v == i32::MIN || v.unsigned_abs() >= 1 << 30 {
                        return Ok(());
                    }
                    for val in [v, -v] {
                        let n = hu::naf(val);
                        let sum: i64 = n.iter().map(|&t| t as i64).sum();
                        let mut ok = sum == val as i64;
                        let mut exps: Vec<u32> = vec![];
                        for &t in &n {
                            if t == 0 || !(t.unsigned_abs()).is_power_of_two() {
                                ok = false;
                            } else {
                                exps.push(t.unsigned_abs().trailing_zeros());
                            }
                        }
                        exps.sort();
                        if exps.windows(2).any(|w| w[1] - w[0] < 2) {
                            ok = false;
                        }
                        if !ok {
                            return Err((format!("non-adjacent signed powers of two summing to {val}"), format!("{n:?}")));
                        }
                    }
                }
                _ => panic!("unknown nt func"),
            }
            Ok(())
        });
        steps += 1;
        match r {
            Ok(Ok(())) => {}
            Ok(Err((e, o))) => return CaseOut::fail(format!("nt:{}:wrong", c.func), format!("x={x} y={y} -> {e}"), o),
            Err(p) => return CaseOut::fail(format!("nt:{}:panic:{}", c.func, panic_class(&p)), format!("no panic for x={x} y={y}"), p),
        }
    }
    CaseOut::pass(true, h64(&(c.func.as_str(), x % 7)), steps)
}

// ------------------------------------------------------------------------------------------
// production-size sections: operand LENGTH (words), shift amount, operand count, exponent bit
// length driven across 8 / 16 / 32 / 64 (+-1) with structured exhaustive families
// ------------------------------------------------------------------------------------------

/// word counts of the multi-word sections
pub const BIG_LENS: [usize; 18] = [1, 2, 3, 4, 5, 6, 7, 8, 9, 15, 16, 17, 31, 32, 33, 63, 64, 65];
/// thorough tier only, reduced families
pub const BIG_LENS_2X: [usize; 3] = [127, 128, 129];
const TOPBIT: u64 = 1 << 63;
const MAXW: u64 = u64::MAX;

type EvalErr = (String, String, String);

#[derive(Serialize, Deserialize, Clone, Debug)]
pub struct BCase {
    pub func: String,
    /// word count of the (first) operand; operand count for multiply_many
    pub len: usize,
    /// word count of the second operand where it may differ (multiply, mixed), else 0
    pub len2: usize,
    /// 0 = reduced operand families (quick tier), 1 = complete families (thorough tier)
    pub full: u8,
}

#[derive(Serialize, Deserialize, Clone, Debug)]
pub struct BWCase {
    pub func: String,
    pub q: u64,
    pub full: u8,
}

/// position-distinct generic words (fixed constants, so that a word copied from / to the wrong index is visible)
fn gen_fill(len: usize, salt: u64) -> Vec<u64> {
    (0..len as u64).map(|i| (i + 1 + 131 * salt).wrapping_mul(0x9E37_79B9_7F4A_7C15) ^ 0x0123_4567_89AB_CDEF).collect()
}
fn unit_w(len: usize, i: usize, w: u64) -> Vec<u64> {
    let mut v = vec![0u64; len];
    v[i] = w;
    v
}
/// 2^64-1 in the words [i, j), zero elsewhere
fn run_w(len: usize, i: usize, j: usize) -> Vec<u64> {
    let mut v = vec![0u64; len];
    for x in &mut v[i..j] {
        *x = MAXW;
    }
    v
}
fn dedup_keep_order(v: Vec<Vec<u64>>) -> Vec<Vec<u64>> {
    let mut seen = std::collections::HashSet::new();
    v.into_iter().filter(|x| seen.insert(x.clone())).collect()
}

/// The structured operand family U(len) over the word alphabet {0, 1, 2^63, 2^64-1} (+ one generic fill):
/// zero, all-ones, fill; a single word w at every position (w = 1, 2^64-1; complete: also 2^63); all-ones with the
/// word at every position replaced (by 0; complete: also by 1, 2^63); all-ones runs [0,i) and [i,len) for every i.
fn fam_u(len: usize, full: bool) -> Vec<Vec<u64>> {
    let mut v = vec![vec![0u64; len], vec![MAXW; len], gen_fill(len, 0)];
    let singles: &[u64] = if full { &[1, MAXW, TOPBIT] } else { &[1, MAXW] };
    let holes: &[u64] = if full { &[0, 1, TOPBIT] } else { &[0] };
    for i in 0..len {
        for &w in singles {
            v.push(unit_w(len, i, w));
        }
    }
    for i in 0..len {
        for &w in holes {
            let mut x = vec![MAXW; len];
            x[i] = w;
            v.push(x);
        }
    }
    for i in 1..len {
        v.push(run_w(len, 0, i));
        v.push(run_w(len, i, len));
    }
    dedup_keep_order(v)
}

/// Pairs for the binary carry / borrow / comparison helpers: U x U, plus (all-ones run [i,j), single word w at i)
/// for every i < j (a carry entering at word i crosses every boundary up to j), plus pairs differing in exactly one word.
fn fam_pairs(len: usize, full: bool) -> (Vec<Vec<u64>>, Vec<(u32, u32)>) {
    let mut ops: Vec<Vec<u64>> = vec![];
    let mut index: std::collections::HashMap<Vec<u64>, u32> = std::collections::HashMap::new();
    let mut intern = |v: Vec<u64>, ops: &mut Vec<Vec<u64>>| -> u32 {
        if let Some(&i) = index.get(&v) {
            return i;
        }
        let i = ops.len() as u32;
        index.insert(v.clone(), i);
        ops.push(v);
        i
    };
    let u: Vec<u32> = fam_u(len, full).into_iter().map(|v| intern(v, &mut ops)).collect();
    let mut pairs: Vec<(u32, u32)> = vec![];
    for &x in &u {
        for &y in &u {
            pairs.push((x, y));
        }
    }
    for i in 0..len {
        for j in (i + 1)..=len {
            let r = intern(run_w(len, i, j), &mut ops);
            for w in [1u64, MAXW] {
                let e = intern(unit_w(len, i, w), &mut ops);
                pairs.push((r, e));
                pairs.push((e, r));
            }
        }
    }
    let f = gen_fill(len, 0);
    let fi = intern(f.clone(), &mut ops);
    for i in 0..len {
        for w in [0u64, 1, TOPBIT, MAXW, f[i].wrapping_add(1), f[i].wrapping_sub(1)] {
            let mut g = f.clone();
            g[i] = w;
            let gi = intern(g, &mut ops);
            pairs.push((fi, gi));
            pairs.push((gi, fi));
        }
    }
    let mut seen = std::collections::HashSet::new();
    pairs.retain(|p| seen.insert(*p));
    (ops, pairs)
}

/// Operands of the products: zero, all-ones, fill, a single 1 at every word (complete: also a single 2^64-1 / 2^63 at every
/// word, all-ones with a zero word at every position).
fn fam_mul(len: usize, full: bool) -> Vec<Vec<u64>> {
    let mut v = vec![vec![0u64; len], vec![MAXW; len], gen_fill(len, 0)];
    for i in 0..len {
        v.push(unit_w(len, i, 1));
    }
    if full {
        for i in 0..len {
            v.push(unit_w(len, i, MAXW));
            v.push(unit_w(len, i, TOPBIT));
            let mut x = vec![MAXW; len];
            x[i] = 0;
            v.push(x);
        }
    }
    dedup_keep_order(v)
}

/// Operands of the mixed-length helpers: zero, all-ones, fill, a single 1 / 2^64-1 at every word.
fn fam_mixed(len: usize) -> Vec<Vec<u64>> {
    let mut v = vec![vec![0u64; len], vec![MAXW; len], gen_fill(len, 1)];
    for i in 0..len {
        v.push(unit_w(len, i, 1));
        v.push(unit_w(len, i, MAXW));
    }
    dedup_keep_order(v)
}

fn ext(v: &[u64], len: usize) -> Vec<u64> {
    let mut x = v.to_vec();
    x.resize(len, 0);
    x
}

fn big_multiply_eval(a: &[u64], b: &[u64]) -> Result<u64, EvalErr> {
    let (l1, l2) = (a.len(), b.len());
    let p = BigU::from_limbs(a).mul(&BigU::from_limbs(b));
    // truncated results, the exact length, and pre-filled buffers longer than the product
    let mut rls = vec![1usize, l1.max(l2), l1 + l2 - 1, l1 + l2, l1 + l2 + 1, l1 + l2 + 3];
    rls.sort();
    rls.dedup();
    let mut n = 0;
    for rl in rls {
        let mut r = vec![0xDEADu64; rl];
        hu::multiply_uint(a, b, &mut r);
        n += 1;
        let e = wrap(&p, rl);
        if r != e {
            return Err((format!("multiply_uint result_len={rl} a={a:x?} b={b:x?}"), format!("{e:x?}"), format!("{r:x?}")));
        }
    }
    Ok(n)
}

fn big_divide_eval(num: &[u64], den: &[u64]) -> Result<u64, EvalErr> {
    let len = num.len();
    let (bn, bd) = (BigU::from_limbs(num), BigU::from_limbs(den));
    // (q, r) is THE quotient and remainder iff q*d + r = n and r < d; the bit-by-bit reference division is only run for the message
    let judge = |what: &str, quo: &[u64], rem: &[u64]| -> Result<(), EvalErr> {
        let (q, r) = (BigU::from_limbs(quo), BigU::from_limbs(rem));
        if r < bd && q.mul(&bd).add(&r) == bn {
            return Ok(());
        }
        let (eq, er) = bn.divrem(&bd);
        Err((format!("{what} a={num:x?} b={den:x?}"), format!("quotient={:x?} remainder={:x?}", eq.limbs(len), er.limbs(len)), format!("quotient={quo:x?} remainder={rem:x?}")))
    };
    let mut n = num.to_vec();
    let mut quo = vec![0xDEADu64; len];
    hu::divide_uint_inplace(&mut n, den, &mut quo);
    judge("divide_uint_inplace", &quo, &n)?;
    let mut quo = vec![0xDEADu64; len];
    let mut rem = vec![0xDEADu64; len];
    hu::divide_uint(num, den, &mut quo, &mut rem);
    judge("divide_uint", &quo, &rem)?;
    Ok(2)
}

/// (numerator, denominator) pairs of `len` words: denominators of EVERY significant length dl = 1..len
/// (2^(64(dl-1)), all-ones, fill; complete: also 2^(64(dl-1))+1 and 2^(64dl-1)+1), numerators all-ones, fill (complete: also
/// 2^(64len-1), 2^(64(len-1))); complete: numerators of every significant length nl < len (all-ones, fill) against
/// denominators of dl in {1, nl-1, nl, nl+1, len} words.
fn fam_divide(len: usize, full: bool) -> Vec<(Vec<u64>, Vec<u64>)> {
    let dens = |dl: usize, full: bool| -> Vec<Vec<u64>> {
        let mut d = vec![unit_w(dl, dl - 1, 1), vec![MAXW; dl], gen_fill(dl, 2)];
        if full {
            let mut x = unit_w(dl, dl - 1, 1);
            x[0] |= 1;
            x[0] += (dl == 1) as u64; // 2 for one word
            d.push(x);
            let mut x = unit_w(dl, dl - 1, TOPBIT);
            x[0] |= 1;
            d.push(x);
        }
        d
    };
    let mut nums = vec![vec![MAXW; len], gen_fill(len, 0)];
    if full {
        nums.push(unit_w(len, len - 1, TOPBIT));
        nums.push(unit_w(len, len - 1, 1));
    }
    let mut out = vec![];
    for n in &nums {
        for dl in 1..=len {
            for d in dens(dl, full) {
                out.push((n.clone(), ext(&d, len)));
            }
        }
    }
    if full {
        for nl in 1..len {
            for n in [vec![MAXW; nl], gen_fill(nl, 0)] {
                let mut dls = vec![1, nl.saturating_sub(1).max(1), nl, nl + 1, len];
                dls.sort();
                dls.dedup();
                for dl in dls {
                    for d in [vec![MAXW; dl], gen_fill(dl, 2)] {
                        out.push((ext(&n, len), ext(&d, len)));
                    }
                }
            }
        }
    }
    out
}

/// Operand vectors of multiply_many_u64 with `count` operands.
fn fam_many(count: usize) -> Vec<Vec<u64>> {
    let mut v: Vec<Vec<u64>> = [1u64, 2, TOPBIT, MAXW].iter().map(|&w| vec![w; count]).collect();
    v.push(gen_fill(count, 3).into_iter().map(|w| w | 1).collect());
    for i in 0..count {
        for (base, w) in [(MAXW, 0u64), (MAXW, 1), (MAXW, 2), (1, MAXW), (2, MAXW)] {
            let mut x = vec![base; count];
            x[i] = w;
            v.push(x);
        }
    }
    dedup_keep_order(v)
}

fn big_many_eval(ops: &[u64]) -> Result<u64, EvalErr> {
    let p = BigU::product(ops);
    let mut r = vec![0xDEADu64; ops.len()];
    hu::multiply_many_u64(ops, &mut r);
    let e = wrap(&p, ops.len());
    if r != e {
        return Err((format!("multiply_many_u64 operands={ops:x?}"), format!("{e:x?}"), format!("{r:x?}")));
    }
    Ok(1)
}

/// add_uint_carry / sub_uint_borrow (+ in-place forms) and compare_uint on operands of DIFFERENT word counts.
fn big_mixed_eval(a: &[u64], b: &[u64]) -> Result<u64, EvalErr> {
    let (l1, l2) = (a.len(), b.len());
    let m = l1.max(l2);
    let (ba, bb) = (BigU::from_limbs(a), BigU::from_limbs(b));
    let inp = || format!("a={a:x?} b={b:x?}");
    let mut n = 0u64;
    macro_rules! chk {
        ($what:expr, $obs:expr, $exp:expr) => {{
            let (o, e) = ($obs, $exp);
            n += 1;
            if o != e {
                return Err((format!("{} {}", $what, inp()), format!("{:x?}", e), format!("{:x?}", o)));
            }
        }};
    }
    for c in 0..=1u8 {
        let s = ba.add(&bb).add(&BigU::from_u64(c as u64));
        let y = bb.add(&BigU::from_u64(c as u64));
        for rl in [m, m + 1] {
            let mut r = vec![0xDEADu64; rl];
            chk!(format!("add_uint_carry c={c} rl={rl} carry"), hu::add_uint_carry(a, b, c, &mut r), (s >= pow2w(rl)) as u8);
            chk!(format!("add_uint_carry c={c} rl={rl}"), r, wrap(&s, rl));
            let (e, bo) = if ba >= y { (wrap(&ba.sub(&y), rl), 0u8) } else { (wrap(&pow2w(rl).add(&ba).sub(&y), rl), 1u8) };
            let mut r = vec![0xDEADu64; rl];
            chk!(format!("sub_uint_borrow c={c} rl={rl} borrow"), hu::sub_uint_borrow(a, b, c, &mut r), bo);
            chk!(format!("sub_uint_borrow c={c} rl={rl}"), r, e);
        }
        if l1 >= l2 {
            // in-place forms: the result has the word count of the first operand, the second one may be shorter
            let mut x = a.to_vec();
            chk!(format!("add_uint_carry_inplace c={c} carry"), hu::add_uint_carry_inplace(&mut x, b, c), (s >= pow2w(l1)) as u8);
            chk!(format!("add_uint_carry_inplace c={c}"), x, wrap(&s, l1));
            let (e, bo) = if ba >= y { (wrap(&ba.sub(&y), l1), 0u8) } else { (wrap(&pow2w(l1).add(&ba).sub(&y), l1), 1u8) };
            let mut x = a.to_vec();
            chk!(format!("sub_uint_borrow_inplace c={c} borrow"), hu::sub_uint_borrow_inplace(&mut x, b, c), bo);
            chk!(format!("sub_uint_borrow_inplace c={c}"), x, e);
        }
    }
    let e = ba.cmp(&bb);
    chk!("compare_uint", hu::compare_uint(a, b), e);
    chk!("is_greater_than_uint", hu::is_greater_than_uint(a, b), e == std::cmp::Ordering::Greater);
    chk!("is_greater_than_or_equal_uint", hu::is_greater_than_or_equal_uint(a, b), e != std::cmp::Ordering::Less);
    chk!("is_less_than_uint", hu::is_less_than_uint(a, b), e == std::cmp::Ordering::Less);
    chk!("is_less_than_or_equal_uint", hu::is_less_than_or_equal_uint(a, b), e != std::cmp::Ordering::Greater);
    chk!("is_equal_uint", hu::is_equal_uint(a, b), e == std::cmp::Ordering::Equal);
    Ok(n)
}

/// Moduli of `len` words for the multi-word modular helpers: every significant length ml = 1..len
/// (2^(64(ml-1))+1, all-ones, odd fill, 2^(64ml-1)), zero-extended.
fn fam_moduli(len: usize) -> Vec<Vec<u64>> {
    let mut v = vec![];
    for ml in 1..=len {
        let mut x = unit_w(ml, ml - 1, 1);
        x[0] += 1; // 2 for one word, 2^(64(ml-1))+1 above
        v.push(ext(&x, len));
        v.push(ext(&vec![MAXW; ml], len));
        let mut x = gen_fill(ml, 4);
        x[0] |= 1;
        v.push(ext(&x, len));
        v.push(ext(&unit_w(ml, ml - 1, TOPBIT), len));
    }
    dedup_keep_order(v)
}

/// All modular helpers of basic.rs for one multi-word modulus: operands {0, 1, 2, m-1, m-2, floor(m/2), floor(m/2)+1,
/// m - fill, lowest word all-ones, 2^(bits(m)-2)} below m; every operand for the unary helpers, every PAIR for add / sub.
fn big_mod_eval(mw: &[u64]) -> Result<u64, EvalErr> {
    let len = mw.len();
    let m = BigU::from_limbs(mw);
    let one = BigU::one();
    let mut xs: Vec<BigU> = vec![BigU::zero(), one.clone(), BigU::from_u64(2), m.sub(&one), m.shr(1), m.shr(1).add(&one), BigU::from_u64(MAXW), BigU::pow2(m.bits().saturating_sub(2))];
    if m >= BigU::from_u64(2) {
        xs.push(m.sub(&BigU::from_u64(2)));
    }
    let sig = m.0.len();
    if sig >= 2 {
        xs.push(m.sub(&BigU::from_limbs(&gen_fill(sig - 1, 5))));
    }
    xs.retain(|x| x < &m);
    xs.sort();
    xs.dedup();
    let mut n = 0u64;
    macro_rules! chk {
        ($what:expr, $obs:expr, $exp:expr) => {{
            let (o, e) = ($obs, $exp);
            n += 1;
            if o != e {
                return Err((format!("{} modulus={mw:x?}", $what), format!("{:x?}", e), format!("{:x?}", o)));
            }
        }};
    }
    let red = |v: BigU| -> Vec<u64> { (if v >= m { v.sub(&m) } else { v }).limbs(len) };
    for x in &xs {
        let xa = x.limbs(len);
        let mut r = vec![0xDEADu64; len];
        hu::increment_uint_mod(&xa, mw, &mut r);
        chk!(format!("increment_uint_mod x={xa:x?}"), r.clone(), red(x.add(&one)));
        hu::decrement_uint_mod(&xa, mw, &mut r);
        chk!(format!("decrement_uint_mod x={xa:x?}"), r.clone(), red(x.add(&m).sub(&one)));
        hu::negate_uint_mod(&xa, mw, &mut r);
        chk!(format!("negate_uint_mod x={xa:x?}"), r.clone(), red(m.sub(x)));
        if mw[0] & 1 == 1 {
            let mut r = vec![0xDEADu64; len];
            hu::div2_uint_mod(&xa, mw, &mut r);
            let e = if xa[0] & 1 == 1 { x.add(&m).shr(1) } else { x.shr(1) };
            chk!(format!("div2_uint_mod x={xa:x?}"), r, e.limbs(len));
        }
        for y in &xs {
            let ya = y.limbs(len);
            let mut r = vec![0xDEADu64; len];
            hu::add_uint_mod(&xa, &ya, mw, &mut r);
            chk!(format!("add_uint_mod x={xa:x?} y={ya:x?}"), r.clone(), red(x.add(y)));
            let mut xi = xa.clone();
            hu::add_uint_mod_inplace(&mut xi, &ya, mw);
            chk!(format!("add_uint_mod_inplace x={xa:x?} y={ya:x?}"), xi, red(x.add(y)));
            hu::sub_uint_mod(&xa, &ya, mw, &mut r);
            chk!(format!("sub_uint_mod x={xa:x?} y={ya:x?}"), r.clone(), red(x.add(&m).sub(y)));
        }
    }
    Ok(n)
}

const BIG_UNARY: &[&str] = &["bits", "incdec", "negate", "shift_left", "shift_right", "half_round_up"];
const BIG_PAIR: &[&str] = &["add", "add_carry", "sub", "sub_borrow", "compare"];
const BIG_WORD2: &[&str] = &["add_u64", "sub_u64", "multiply_u64"];

fn run_big(c: &BCase) -> CaseOut {
    let full = c.full != 0;
    let len = c.len;
    let f = c.func.as_str();
    let mut steps = 0u64;
    // judge one guarded evaluation; Some(fail) ends the case
    let mut judge = |r: Result<Result<u64, EvalErr>, String>, inp: &dyn Fn() -> String| -> Option<CaseOut> {
        match r {
            Ok(Ok(n)) => {
                steps += n;
                None
            }
            Ok(Err((what, exp, obs))) => {
                let helper = what.split_whitespace().next().unwrap_or("?").to_string();
                Some(CaseOut::fail(format!("big_multi:{f}:{helper}"), format!("{what} -> {exp}"), obs))
            }
            Err(p) => Some(CaseOut::fail(format!("big_multi:{f}:panic:{}", panic_class(&p)), format!("no panic for {}", inp()), p)),
        }
    };
    macro_rules! run {
        ($eval:expr, $inp:expr) => {
            if let Some(fail) = judge(guard(|| $eval), &$inp) {
                return fail;
            }
        };
    }
    if len == 0 {
        return CaseOut::skip("empty operand");
    }
    if BIG_UNARY.contains(&f) {
        let zero = vec![0u64; len];
        // the per-shift loops are quadratic in len: the quick tier shifts all-ones, fill and the single words only
        let ops = if f.starts_with("shift") && !full { fam_mixed(len) } else { fam_u(len, full) };
        for a in &ops {
            run!(multi_eval(f, a, &zero), || format!("a={a:x?}"));
        }
    } else if BIG_PAIR.contains(&f) {
        let (ops, pairs) = fam_pairs(len, full);
        for &(i, j) in &pairs {
            let (a, b) = (&ops[i as usize], &ops[j as usize]);
            run!(multi_eval(f, a, b), || format!("a={a:x?} b={b:x?}"));
        }
    } else if BIG_WORD2.contains(&f) {
        for a in &fam_u(len, full) {
            for w in [0u64, 1, 2, TOPBIT, MAXW, 0x9E37_79B9_7F4A_7C15] {
                let b = unit_w(len, 0, w);
                run!(multi_eval(f, a, &b), || format!("a={a:x?} b={w:#x}"));
            }
        }
    } else if f == "logic" {
        let seconds = [vec![0u64; len], vec![MAXW; len], gen_fill(len, 0), gen_fill(len, 1)];
        for a in &fam_u(len, full) {
            for b in &seconds {
                run!(multi_eval(f, a, b), || format!("a={a:x?} b={b:x?}"));
            }
        }
    } else if f == "mod" {
        for m in &fam_moduli(len) {
            run!(big_mod_eval(m), || format!("modulus={m:x?}"));
        }
    } else if f == "multiply" {
        if c.len2 == 0 {
            return CaseOut::skip("empty operand");
        }
        let second = fam_mul(c.len2, full);
        for a in &fam_mul(len, full) {
            for b in &second {
                run!(big_multiply_eval(a, b), || format!("a={a:x?} b={b:x?}"));
            }
        }
    } else if f == "mixed" {
        if c.len2 == 0 {
            return CaseOut::skip("empty operand");
        }
        let second = fam_mixed(c.len2);
        for a in &fam_mixed(len) {
            for b in &second {
                run!(big_mixed_eval(a, b), || format!("a={a:x?} b={b:x?}"));
            }
        }
    } else if f == "divide" {
        for (a, b) in &fam_divide(len, full) {
            run!(big_divide_eval(a, b), || format!("a={a:x?} b={b:x?}"));
        }
    } else if f == "multiply_many" {
        for ops in &fam_many(len) {
            run!(big_many_eval(ops), || format!("operands={ops:x?}"));
        }
    } else {
        panic!("unknown big func {f}");
    }
    CaseOut { nontrivial: steps > 0, outcome: h64(&(f, len, c.len2, steps)), steps, verdict: if steps > 0 { Verdict::Pass } else { Verdict::Skip("empty family".into()) } }
}

fn big_cases(thorough: bool) -> Vec<BCase> {
    let full = thorough as u8;
    let mut cases: Vec<BCase> = vec![];
    for &len in &BIG_LENS {
        for f in BIG_UNARY.iter().chain(BIG_PAIR).chain(BIG_WORD2).chain(&["logic", "mod", "divide"]) {
            cases.push(BCase { func: f.to_string(), len, len2: 0, full });
        }
        for &len2 in &BIG_LENS {
            cases.push(BCase { func: "multiply".into(), len, len2, full });
            if len != len2 {
                cases.push(BCase { func: "mixed".into(), len, len2, full });
            }
        }
    }
    for count in 1..=66 {
        cases.push(BCase { func: "multiply_many".into(), len: count, len2: 0, full });
    }
    if thorough {
        // twice the production maximum (64 coefficient primes), on the reduced families
        for len in BIG_LENS_2X {
            for f in BIG_UNARY.iter().chain(BIG_PAIR).chain(BIG_WORD2).chain(&["logic", "mod", "divide"]) {
                cases.push(BCase { func: f.to_string(), len, len2: 0, full: 0 });
            }
            for len2 in [1usize, 64, 128] {
                cases.push(BCase { func: "multiply".into(), len, len2, full: 0 });
                cases.push(BCase { func: "multiply".into(), len: len2, len2: len, full: 0 });
                if len != len2 {
                    cases.push(BCase { func: "mixed".into(), len, len2, full: 0 });
                    cases.push(BCase { func: "mixed".into(), len: len2, len2: len, full: 0 });
                }
            }
        }
        for count in [127usize, 128, 129] {
            cases.push(BCase { func: "multiply_many".into(), len: count, len2: 0, full: 0 });
        }
    }
    // simplest first
    cases.sort_by_key(|c| (c.len.max(c.len2), c.len + c.len2));
    cases
}

// ---- word-level primitives that loop: value length, term count, exponent bits ----

/// value lengths of modulo_uint(_inplace)
fn big_word_lens(full: bool) -> Vec<usize> {
    if full {
        (1..=129).collect()
    } else {
        BIG_LENS.iter().copied().chain([127, 128, 129]).collect()
    }
}

/// moduli of the `modulo_uint` cases: the boundary moduli of 2, 3, 31..33 and 59..61 bits
fn big_word_moduli() -> Vec<u64> {
    boundary_moduli().into_iter().filter(|&q| matches!(64 - q.leading_zeros(), 2 | 3 | 31 | 32 | 33 | 59 | 60 | 61)).collect()
}

/// exponents of every bit length 0..64
fn big_exponents() -> Vec<u64> {
    let mut v = vec![0u64, 1];
    for k in 1..64u32 {
        let top = 1u64 << k;
        let low = top - 1;
        v.extend([top, top | 1, top | low, top | (0x5555_5555_5555_5555 & low), top | (0xAAAA_AAAA_AAAA_AAAA & low), top | (low >> 1)]);
    }
    v.sort();
    v.dedup();
    v
}

fn run_big_word(c: &BWCase) -> CaseOut {
    let q = c.q;
    let full = c.full != 0;
    let f = c.func.as_str();
    let m = match guard(|| Modulus::new(q)) {
        Ok(m) => m,
        Err(p) => return CaseOut::fail(format!("big_word:{f}:modulus_new_panic"), "Modulus::new accepts 2..61-bit values", p),
    };
    let mut steps = 0u64;
    macro_rules! cmp {
        ($helper:expr, $call:expr, $exp:expr, $inp:expr) => {{
            steps += 1;
            match guard(|| $call) {
                Ok(o) => {
                    let e = $exp;
                    if o != e {
                        return CaseOut::fail(format!("big_word:{}:wrong", $helper), format!("{} -> {:?}", $inp, e), format!("{:?}", o));
                    }
                }
                Err(p) => return CaseOut::fail(format!("big_word:{}:panic:{}", $helper, panic_class(&p)), format!("no panic for {}", $inp), p),
            }
        }};
    }
    match f {
        "modulo_uint" => {
            for len in big_word_lens(full) {
                for v in &fam_u(len, full) {
                    let exp = BigU::from_limbs(v).rem_u64(q);
                    cmp!("modulo_uint", hu::modulo_uint(v, &m), exp, format!("q={q} value={v:x?}"));
                    let mut e = vec![0u64; len];
                    e[0] = exp;
                    cmp!(
                        "modulo_uint_inplace",
                        {
                            let mut w = v.clone();
                            hu::modulo_uint_inplace(&mut w, &m);
                            w
                        },
                        e,
                        format!("q={q} value={v:x?}")
                    );
                }
            }
        }
        "dot_product" => {
            // domain ("follows the condition of barrett_reduce_128"): the exact sum of the products fits 128 bits
            let fit = |x: u64, count: usize| -> u64 { (u128::MAX / (count as u128 * x.max(1) as u128)).min(u64::MAX as u128) as u64 };
            let refdot = |a: &[u64], b: &[u64]| -> u64 {
                let mut s = 0u128;
                for (x, y) in a.iter().zip(b) {
                    s = (s + (*x as u128 * *y as u128) % q as u128) % q as u128;
                }
                s as u64
            };
            let user_max = (1u64 << 60) - 1;
            for count in 1..=300usize {
                // (a) maximal reduced operands, the second one lowered just enough for the sum to fit
                let (x, y) = (q - 1, (q - 1).min(fit(q - 1, count)));
                let (v1, v2) = (vec![x; count], vec![y; count]);
                cmp!("dot_product", hu::dot_product_mod(&v1, &v2, &m), refdot(&v1, &v2), format!("q={q} count={count} all x={x} y={y}"));
                // (b) maximal operands of the user-modulus range (below 2^60, not reduced), lowered likewise
                let (x, y) = (user_max, user_max.min(fit(user_max, count)));
                let (v1, v2) = (vec![x; count], vec![y; count]);
                cmp!("dot_product", hu::dot_product_mod(&v1, &v2, &m), refdot(&v1, &v2), format!("q={q} count={count} all x={x} y={y}"));
                // (c) position-distinct reduced operands (a term dropped, doubled or paired with the wrong index changes the sum)
                let ycap = (q - 1).min(fit(q - 1, count));
                let v1: Vec<u64> = (0..count as u64).map(|i| q - 1 - (i % q)).collect();
                let v2: Vec<u64> = (0..count as u64).map(|i| ycap - ((3 * i + 1) % (ycap + 1))).collect();
                cmp!("dot_product", hu::dot_product_mod(&v1, &v2, &m), refdot(&v1, &v2), format!("q={q} count={count} x_i=q-1-i y_i={ycap}-(3i+1)"));
                // (d) a single maximal term at every position
                for i in 0..count {
                    let (mut v1, mut v2) = (vec![0u64; count], vec![0u64; count]);
                    v1[i] = q - 1;
                    v2[i] = q - 1;
                    cmp!("dot_product", hu::dot_product_mod(&v1, &v2, &m), mul_mod(q - 1, q - 1, q), format!("q={q} count={count} single term (q-1)^2 at {i}"));
                }
            }
        }
        "exponentiate" => {
            let mut bases = vec![0u64, 1, 2, 3, q / 2, q.saturating_sub(2), q - 1, 0x9E37_79B9_7F4A_7C15 % q];
            bases.retain(|&b| b < q);
            bases.sort();
            bases.dedup();
            for &e in &big_exponents() {
                for &b in &bases {
                    cmp!("exponentiate", hu::exponentiate_u64_mod(b, e, &m), pow_mod(b, e, q), format!("q={q} base={b} exponent={e:#x}"));
                }
            }
        }
        _ => panic!("unknown big word func {f}"),
    }
    CaseOut::pass(true, h64(&(f, 64 - q.leading_zeros(), steps)), steps)
}

pub fn sections(cfg: &RunCfg) -> Vec<Box<dyn AnySection>> {
    let thorough = cfg.thorough();
    let mut v: Vec<Box<dyn AnySection>> = vec![];

    // (i) all moduli below 2^7 (2^8 thorough)
    let qmax: u64 = if thorough { 256 } else { 128 };
    let cases: Vec<WCase> = WORD_FUNCS.iter().flat_map(|f| (2..qmax).map(move |q| WCase { func: f.to_string(), q })).collect();
    v.push(E1::new(
        "word_small",
        &format!("all moduli 2..{qmax} x all operands 0..2q (+top-of-word patterns), pairs; third operand from a boundary set"),
        cases.into_iter(),
        |c: &WCase| {
            let ops = small_ops(c.q);
            let third = boundary_ops(c.q);
            // exponent / second operand sets per function
            match c.func.as_str() {
                "exponentiate" => {
                    let mut e: Vec<u64> = (0..=2 * c.q + 2).collect();
                    e.extend([u64::MAX, 1 << 63, (1 << 63) - 1]);
                    run_word(c, &ops, &e, &third)
                }
                "multiply_add" | "operand_mul_add" | "modulo_uint" | "modulo_uint_inplace" | "divide_uint_mod_len3" => {
                    // three operands: restrict the first two to the reduced range + patterns to stay cubic-small
                    let small: Vec<u64> = (0..c.q).chain([c.q, 2 * c.q - 1, u64::MAX, 1 << 63, 0x5555_5555_5555_5555]).collect();
                    run_word(c, &small, &small, &third)
                }
                _ => run_word(c, &ops, &ops, &third),
            }
        },
    ));

    // (ii) boundary moduli x boundary operands
    let bm = boundary_moduli();
    let cases: Vec<WCase> = WORD_FUNCS.iter().flat_map(|f| bm.clone().into_iter().map(move |q| WCase { func: f.to_string(), q })).collect();
    v.push(E1::new(
        "word_boundary",
        "moduli {2^k, 2^k±1, 2^k±3 : k=2..61} below 2^61 + largest 59/60/61-bit NTT primes x boundary operand triples",
        cases.into_iter(),
        |c: &WCase| {
            let ops = boundary_ops(c.q);
            if c.func == "barrett128" {
                // (low word, high word) pairs of the top multiples are among the pairs of the extended sets
                let tops = top_multiples(c.q);
                let mut lo = ops.clone();
                let mut hi = ops.clone();
                lo.extend(tops.iter().map(|&x| x as u64));
                hi.extend(tops.iter().map(|&x| (x >> 64) as u64));
                lo.sort_unstable();
                lo.dedup();
                hi.sort_unstable();
                hi.dedup();
                return run_word(c, &lo, &hi, &ops[..1]);
            }
            run_word(c, &ops, &ops, &ops)
        },
    ));

    // (iii) multi-word helpers
    let maxlen_full = if thorough { 4 } else { 3 };
    let mut cases: Vec<MCase> = vec![];
    for len in 1..=maxlen_full {
        for f in MULTI_FUNCS {
            // per-shift loops are quadratic in len: keep W^len x W^len only where cheap
            cases.push(MCase { func: f.to_string(), len, alpha: 0 });
        }
    }
    for len in (maxlen_full + 1)..=(if thorough { 8 } else { 5 }) {
        for f in MULTI_FUNCS {
            let unary = matches!(*f, "bits" | "incdec" | "negate" | "shift_left" | "shift_right" | "half_round_up");
            // 3^len operands (pairs: 3^(2 len)); pairs only up to len 5 quick / 6 thorough
            if unary || len <= (if thorough { 6 } else { 5 }) {
                cases.push(MCase { func: f.to_string(), len, alpha: 1 });
            }
        }
    }
    v.push(E1::new(
        "multiword",
        &format!("every util::basic helper: all operand (pairs) over W={{0,1,2^63,2^64-1,0x55..,0xAA..}}^len, len 1..{maxlen_full}; W'={{0,1,2^64-1}}^len above; every shift amount"),
        cases.into_iter(),
        run_multi,
    )
    // the W^4 x W^4 cases of the thorough tier take ~25 s of CPU each: with the default 60 s deadline a machine loaded 10x over
    // reported one of them (mod_incdecneg, len 4) as `nontermination`
    .deadline(std::time::Duration::from_secs(if thorough { 300 } else { 60 })));

    // (iv) number theory helpers
    let mut xs: Vec<u64> = (0..128).collect();
    xs.extend([u64::MAX, u64::MAX - 1, 1 << 63, (1 << 61) - 1, 1 << 32, (1u64 << 62) - 1, 0xFFFF_FFFF, 0x1_0000_0001, 6700417, 4294967291]);
    let ys = xs.clone();
    let mut cases: Vec<NCase> = vec![];
    for f in ["gcd", "xgcd", "invert"] {
        for &x in &xs {
            cases.push(NCase { func: f.into(), x });
        }
    }
    for x in 0..(if thorough { 1u64 << 16 } else { 1u64 << 12 }) {
        cases.push(NCase { func: "naf".into(), x });
    }
    v.push(E1::new("numtheory", "gcd/xgcd/inversion: all pairs below 2^7 + boundary values; naf: all |v| below 2^12 (2^16 thorough)", cases.into_iter(), move |c: &NCase| {
        if c.func == "naf" {
            run_nt(c, &[0])
        } else {
            run_nt(c, &ys)
        }
    }));

    // (v) multi-word helpers at production word counts (structured exhaustive families)
    let fam = if thorough { "complete" } else { "reduced" };
    v.push(
        E1::new(
            "big_multi",
            &format!(
                "every util::basic multi-word helper at EVERY word count len in {{1..9, 15..17, 31..33, 63..65}} on the {fam} structured families over \
                 {{0,1,2^63,2^64-1}}: U(len) = zero, all-ones, fill, a single word at every position, all-ones with every word replaced, every low / high \
                 all-ones run; binary carry/borrow/compare helpers on U x U + (run [i,j), word at i) for all i<j + pairs differing in exactly one word; \
                 every shift amount 0..64*len and every bit index; multiply_uint for every (len1, len2) of the list with result buffers of \
                 1 .. len1+len2+3 words; mixed-length add_uint_carry / sub_uint_borrow / compare_uint for every len1 != len2; divide_uint(_inplace) with \
                 denominators of every significant length 1..len; the *_uint_mod helpers for moduli of every significant length 1..len; \
                 multiply_many_u64 for every operand count 1..66{}"
            , if thorough { "; additionally len 127..129 on the reduced families (multiply / mixed against 1, 64, 128 words; multiply_many of 127..129 operands)" } else { "" }),
            big_cases(thorough).into_iter(),
            run_big,
        )
        .batch(1)
        // largest case: 0.7 s CPU quick, 4 s thorough (the bit-by-bit division never terminates when a helper under it is wrong)
        .deadline(std::time::Duration::from_secs(if thorough { 240 } else { 60 }))
        .hang_key(|c: &BCase| format!("big_multi:{}:nontermination", c.func)),
    );

    // (vi) word-level primitives that loop: multi-word reduction, dot product, exponentiation
    let full = thorough as u8;
    let mut cases: Vec<BWCase> = vec![];
    for q in big_word_moduli() {
        cases.push(BWCase { func: "modulo_uint".into(), q, full });
    }
    for q in if thorough { boundary_moduli() } else { big_word_moduli() } {
        cases.push(BWCase { func: "exponentiate".into(), q, full });
        cases.push(BWCase { func: "dot_product".into(), q, full });
    }
    v.push(
        E1::new(
            "big_word",
            &format!(
                "modulo_uint(_inplace): values of {} words from U(len) x boundary moduli of 2,3,31..33,59..61 bits; dot_product_mod: EVERY term count \
                 1..300 x {mods} x (all terms maximal with the exact sum below 2^128, reduced and 60-bit operands; position-distinct \
                 terms; a single maximal term at every position); exponentiate_u64_mod: exponents of EVERY bit length 0..64 \
                 (2^k, 2^k+1, 2^(k+1)-1, 2^k+0x55.., 2^k+0xAA.., 2^k+2^(k-1)-1) x 8 bases x {mods}",
                if thorough { "every length 1..129" } else { "1..9, 15..17, 31..33, 63..65, 127..129" },
                mods = if thorough { "every boundary modulus (2..61 bits)" } else { "the same moduli" }
            ),
            cases.into_iter(),
            run_big_word,
        )
        .batch(1)
        .deadline(std::time::Duration::from_secs(if thorough { 240 } else { 60 }))
        .hang_key(|c: &BWCase| format!("big_word:{}:nontermination", c.func)),
    );
    v
}
