//! C11 — batch encoding is a ring isomorphism; the Galois action is the documented rotation.
//!
//! Independent definition of the slots (nothing of the library's NTT / index map is reused):
//!   psi   = context.first_context_data().plain_ntt_tables().root()   (checked: psi^N = -1 mod t; minimal for t < 2^21)
//!   r_i       = psi^( 3^i mod 2N)   slot i of row 0   (i < N/2)
//!   r_{N/2+i} = psi^(-3^i mod 2N)   slot i of row 1
//!   decode(m)[i] = m(r_i)  (Horner, O(N) per slot);  encode(val * e_j)[k] = val * N^-1 * r_j^-k  (Lagrange basis, closed form)
//!
//! E1 sections (case = one parameter set, the check loops over the stated alphabet inside):
//!  * `slots`       N unit vectors x {1,t-1} (closed form), N monomials x {1,t-1} (decode), generic/extreme vectors (naive evaluation)
//!  * `lengths`     every input length 0..N of a generic vector (zero padding, dirty destination), too-long inputs refused
//!  * `exhaustive`  ALL t^N vectors for (2,5), (2,13), (4,17); all pairs (sum, product) for the first two
//!  * `ring`        sum / product modulo (X^N+1, t) (naive) of all pairs of unit vectors x {1,t-1}^2 (N <= 32) + generic/extreme pairs
//!  * `galois`      every step s in -(N/2-1)..N/2-1, the column swap, every odd element 1..2N-1, get_elts_all
//!  * `polynomial`  encode_polynomial / decode_polynomial: {0,1,t-1,t,t+1,2^64-1} at every position, lengths 0..N, too-long refused
//!
//! Production sizes (N = 128..8192 in BOTH tiers; structured families, O(N) library calls per parameter set, O(N) reference per call):
//!  * `big_slots`      every unit slot (closed form + decode), the generic polynomial of every stored length 1..N decoded against the
//!                     running sum of its monomials, 9 vectors evaluated at all roots through the fast reference transform
//!  * `big_lengths`    every input length 0..N, encode / decode into fresh and used destinations
//!  * `big_galois`     every step: get_elt_from_step == 3^(s mod N/2) mod 2N, applied to a unit-slot plaintext; every odd element on
//!                     the all-distinct plaintext; get_elts_from_steps, get_elts_all
//!  * `big_ring`       sums / products (fast reference product) of 81 generic pairs and of unit slots (boundary slots; all slots up
//!                     to N = 256, thorough 8192)
//!  * `big_polynomial` coefficient encoding of every length 0..N, fresh and used destinations
//!  * `primes`         N = 8, 16 below chains of 1..18 coefficient primes: all of the above alphabets

use crate::engine::*;
use crate::he::*;
use crate::refmodel::bigu::{add_mod, inv_mod_u64, is_prime_u64, mul_mod, pow_mod, primes_1_mod};
use crate::refmodel::ntt::{fast_intt, fast_ntt};
use crate::refmodel::poly::{bit_reverse, min_primitive_root_2n, pad, padd, peval, pgalois, pmul};
use heathcliff::*;
use serde::{Deserialize, Serialize};
use std::sync::Arc;
use std::time::Duration;

pub fn describe(rep: &Report) {
    rep.set_rule(
        "case = (scheme in {BFV,BGV}, N = 2^k, plain modulus t, two 60-bit coefficient primes); t = the smallest prime = 1 mod 2N and one \
         20-, 40-, 60-bit prime = 1 mod 2N (polynomial section: + t = 7, 16, 2^59 without batching). Each case loops over the whole \
         alphabet of its section (unit vectors, monomials, lengths, steps, Galois elements, positions x values); \
         traces_validated_against_impl counts the individual library calls compared with the reference. \
         non-trivial = at least one call compared on a vector with a non-zero entry. \
         big_* sections: N = 2^7..2^13 in both tiers x (BFV, smallest batching t), (BGV, 60-bit t) (thorough: all four combinations), the \
         index set of a case (unit slots, stored lengths, input lengths, steps, elements) is a contiguous chunk `part` of `parts`; \
         primes: N in {8,16} x 1..18 sixty-bit coefficient primes.",
    );
    rep.assume("big_* sections: the product modulo (X^N+1, t) and the evaluation at all N slot roots use the O(N log N) reference transform of refmodel::ntt (validated against the by-definition transform up to N = 256 in the self-test, against the naive product on one pair per parameter set up to N = 2048 (thorough 8192) and against Horner's rule at the boundary slots)");
    rep.assume("constant multiplications of the closed forms use a quotient-precomputed product that is compared with the 128-bit one in every case (setup)");
    rep.assume("slots are defined independently as evaluations at psi^(+-3^i) with psi = plain_ntt_tables().root(); psi itself is only checked to be a primitive 2N-th root (psi^N = -1) and, for t < 2^21, the minimal one");
    rep.assume("slot values are < t (BatchEncoder::encode does not reduce its input; SEAL validates this in debug builds only)");
    rep.assume("generic vectors are a fixed function of (seed, N, t, index); beyond the stated exhaustive sets vectors are unit / monomial / generic / extreme, not all of Z_t^N");
    rep.assume("apply_galois_plain is exercised on full-length (coeff_count = N) plaintexts as produced by BatchEncoder::encode");
}

#[derive(Serialize, Deserialize, Clone, Debug)]
pub struct Case {
    pub spec: ParamSpec,
    /// exhaustive section: fixed leading slot values (the check enumerates all completions)
    #[serde(default)]
    pub prefix: Vec<u64>,
    /// the alphabet of the section is cut into `parts` contiguous chunks (large N only, for parallelism); this case runs chunk `part`
    #[serde(default)]
    pub part: usize,
    #[serde(default = "one")]
    pub parts: usize,
    /// big_ring only: every unit slot (instead of the boundary slots) is multiplied with the generic vector
    #[serde(default)]
    pub full: bool,
}

fn one() -> usize {
    1
}

impl Case {
    /// sub-range of 0..len handled by this case
    fn chunk(&self, len: usize) -> std::ops::Range<usize> {
        let p = self.parts.max(1);
        let i = self.part.min(p - 1);
        (len * i / p)..(len * (i + 1) / p)
    }
    /// item `idx` of a short list is handled by this case
    fn mine(&self, idx: usize) -> bool {
        idx % self.parts.max(1) == self.part.min(self.parts.max(1) - 1)
    }
    fn first(&self) -> bool {
        self.part == 0 || self.parts <= 1
    }
}

// ---------------------------------------------------------------------------------------------
// parameter sets
// ---------------------------------------------------------------------------------------------

fn smallest_batching_prime(n: usize) -> u64 {
    let m = 2 * n as u64;
    let mut x = m + 1;
    while !is_prime_u64(x) {
        x += m;
    }
    x
}

/// coefficient primes (two largest 60-bit primes = 1 mod 2N) and the third one (used as the 60-bit t)
fn q_and_t60(n: usize) -> (Vec<u64>, u64) {
    let p = primes_1_mod(2 * n as u64, 60, 3);
    assert_eq!(p.len(), 3);
    (vec![p[0], p[1]], p[2])
}

fn batching_ts(n: usize) -> Vec<u64> {
    let (_, t60) = q_and_t60(n);
    let mut ts = vec![smallest_batching_prime(n), primes_1_mod(2 * n as u64, 20, 1)[0], primes_1_mod(2 * n as u64, 40, 1)[0], t60];
    ts.dedup();
    ts
}

fn specs(kmin: u32, kmax: u32, extra_ts: &[u64], parts_of: fn(usize) -> usize) -> Vec<Case> {
    let mut v = vec![];
    for k in kmin..=kmax {
        let n = 1usize << k;
        let (q, _) = q_and_t60(n);
        let mut ts = batching_ts(n);
        ts.extend_from_slice(extra_ts);
        let parts = parts_of(n).max(1);
        for t in ts {
            for scheme in [Scheme::BFV, Scheme::BGV] {
                for part in 0..parts {
                    v.push(Case { spec: ParamSpec::new(scheme, n, q.clone(), t), prefix: vec![], part, parts, full: false });
                }
            }
        }
    }
    v
}

fn parts_alphabet(n: usize) -> usize {
    (n / 64).clamp(1, 128)
}
/// ring: 81 ordered pairs up to N = 256, 6 beyond
fn parts_ring(n: usize) -> usize {
    if n <= 256 {
        (n / 64).max(1)
    } else {
        6
    }
}
/// polynomial: every length up to N = 64, 7 lengths beyond
fn parts_polynomial(n: usize) -> usize {
    if n <= 64 {
        1
    } else {
        7
    }
}

/// production-size sections: N = 2^kmin..2^kmax (ascending: the cheap cases first), per N the combinations
/// (BFV, smallest batching t), (BGV, 60-bit t) [+ (BGV, smallest t), (BFV, 60-bit t) if `four`] + (scheme alternating, t) for the extra t
/// `thin` = 1 / 2: from N = 4096 on only one of the two combinations per N, (BGV, 60-bit) / (BFV, smallest) at 4096 and the other at 8192
fn big_specs(kmin: u32, kmax: u32, four: bool, extra_ts: &[u64], parts_of: fn(usize) -> usize, full_upto: usize, thin: u32) -> Vec<Case> {
    let mut v = vec![];
    for k in kmin..=kmax {
        let n = 1usize << k;
        let (q, t60) = q_and_t60(n);
        let tmin = smallest_batching_prime(n);
        let mut combos = vec![(Scheme::BFV, tmin), (Scheme::BGV, t60)];
        if four {
            combos.extend([(Scheme::BGV, tmin), (Scheme::BFV, t60)]);
        } else if thin > 0 && n >= 4096 {
            combos = vec![combos[((k + thin) % 2) as usize]];
        }
        for (i, &t) in extra_ts.iter().enumerate() {
            combos.push((if i % 2 == 0 { Scheme::BFV } else { Scheme::BGV }, t));
        }
        let full = n <= full_upto;
        let parts = if full { (n / 32).clamp(1, 128) } else { parts_of(n).max(1) };
        for (scheme, t) in combos {
            for part in 0..parts {
                v.push(Case { spec: ParamSpec::new(scheme, n, q.clone(), t), prefix: vec![], part, parts, full });
            }
        }
    }
    v
}

/// 64 items per case up to N = 2048, 32 cases beyond (the context of a large degree is not free)
fn parts_big(n: usize) -> usize {
    (n / 64).clamp(1, 32)
}

fn parts_big_ring(n: usize) -> usize {
    (n / 64).clamp(1, 16)
}

/// chains of 1..=18 sixty-bit coefficient primes at N = 8 and 16; t = the smallest batching prime (BFV) and the 19th largest
/// 60-bit prime = 1 mod 2N (BGV)
fn prime_chain_specs() -> Vec<Case> {
    let mut v = vec![];
    for n in [8usize, 16] {
        let p = primes_1_mod(2 * n as u64, 60, 19);
        assert_eq!(p.len(), 19);
        for count in 1..=18usize {
            for (scheme, t) in [(Scheme::BFV, smallest_batching_prime(n)), (Scheme::BGV, p[18])] {
                v.push(Case { spec: ParamSpec::new(scheme, n, p[..count].to_vec(), t), prefix: vec![], part: 0, parts: 1, full: false });
            }
        }
    }
    v
}

// ---------------------------------------------------------------------------------------------
// environment of one case
// ---------------------------------------------------------------------------------------------

struct Env {
    ctx: Arc<HeContext>,
    be: BatchEncoder,
    n: usize,
    t: u64,
    sch: Scheme,
    batching: bool,
    psi: u64,
    psi_min_checked: bool,
    /// r_i as defined in the module comment (empty without batching)
    roots: Vec<u64>,
    /// r_i = psi^exps[i]: 3^i mod 2N for row 0, 2N - 3^i mod 2N for row 1
    exps: Vec<usize>,
}

fn is_batching_t(n: usize, t: u64) -> bool {
    is_prime_u64(t) && (t - 1) % (2 * n as u64) == 0
}

fn setup(c: &Case, seed: u64, section: &str) -> Result<Env, CaseOut> {
    let tag = h64(&(section, serde_json::to_string(c).unwrap_or_default()));
    env_real(seed, tag);
    let (n, t) = (c.spec.n, c.spec.t);
    let ctx = match guard(|| c.spec.context()) {
        Ok(x) => x,
        Err(e) => return Err(CaseOut::fail(format!("setup:context:{}", panic_class(&e)), "context builds", e)),
    };
    if !ctx.parameters_set() {
        return Err(CaseOut::skip("parameter set rejected by the library"));
    }
    let cd = ctx.first_context_data().unwrap();
    let lib_batching = cd.qualifiers().using_batching;
    let want = is_batching_t(n, t);
    if lib_batching != want {
        return Err(CaseOut::fail(
            "setup:using_batching:wrong",
            format!("using_batching = {want} for N={n} t={t} (t prime and = 1 mod 2N)"),
            format!("{lib_batching}"),
        ));
    }
    let be = match guard(|| BatchEncoder::new(ctx.clone())) {
        Ok(x) => x,
        Err(e) => return Err(CaseOut::fail(format!("setup:encoder:{}", panic_class(&e)), "BatchEncoder::new accepts a valid BFV/BGV context", e)),
    };
    if be.simd_encoding_supported() != want {
        return Err(CaseOut::fail("setup:simd_encoding_supported:wrong", format!("{want}"), format!("{}", !want)));
    }
    if t >= 2 {
        if let Err(m) = mulc_selfcheck(t) {
            return Err(CaseOut::fail("setup:reference:constant-multiplier", "the quotient-precomputed product equals the 128-bit one", m));
        }
    }
    let (mut psi, mut psi_min_checked, mut roots, mut exps) = (0, false, vec![], vec![]);
    if want {
        psi = cd.plain_ntt_tables().root();
        if psi == 0 || psi >= t || pow_mod(psi, n as u64, t) != t - 1 {
            return Err(CaseOut::fail(
                "setup:psi:not-a-primitive-2N-th-root",
                format!("psi^N = -1 mod t (N={n}, t={t})"),
                format!("psi={psi}, psi^N={}", pow_mod(psi, n as u64, t)),
            ));
        }
        if t < (1 << 21) {
            let m = min_primitive_root_2n(n, t);
            if m != Some(psi) {
                return Err(CaseOut::fail("setup:psi:not-minimal", format!("{m:?} (N={n}, t={t})"), format!("{psi}")));
            }
            psi_min_checked = true;
        }
        let m = 2 * n as u64;
        let h = n / 2;
        roots = vec![0; n];
        exps = vec![0; n];
        let mut e = 1u64;
        for i in 0..h {
            roots[i] = pow_mod(psi, e, t);
            roots[h + i] = pow_mod(psi, m - e, t);
            exps[i] = e as usize;
            exps[h + i] = (m - e) as usize;
            e = e * 3 % m;
        }
    }
    Ok(Env { ctx, be, n, t, sch: c.spec.scheme, batching: want, psi, psi_min_checked, roots, exps })
}

fn mk_plain(coeffs: &[u64]) -> Plaintext {
    let mut p = Plaintext::new();
    p.resize(coeffs.len());
    p.data_mut().copy_from_slice(coeffs);
    p
}

fn fv(v: &[u64]) -> String {
    if v.len() <= 24 {
        format!("{v:?}")
    } else {
        format!("{:?}…(len {}, h={:016x})", &v[..24], v.len(), h64(v))
    }
}

/// first index at which two equally long vectors differ
fn first_diff(a: &[u64], b: &[u64]) -> String {
    if a.len() != b.len() {
        return format!("lengths {} vs {}", a.len(), b.len());
    }
    match a.iter().zip(b).position(|(x, y)| x != y) {
        Some(i) => format!("first difference at index {i}: expected {} observed {}", a[i], b[i]),
        None => "equal".into(),
    }
}

/// shape of a batch-encoded plaintext
fn meta_problem(p: &Plaintext, n: usize, t: u64) -> Option<String> {
    if p.coeff_count() != n || p.data().len() != n {
        return Some(format!("coeff_count={} data.len={} (N={n})", p.coeff_count(), p.data().len()));
    }
    if p.is_ntt_form() {
        return Some("parms_id not zero".into());
    }
    if let Some(i) = p.data().iter().position(|&x| x >= t) {
        return Some(format!("coefficient {i} = {} >= t = {t}", p.data()[i]));
    }
    None
}

fn gen_fill(seed: u64, n: usize, t: u64, idx: u64, len: usize) -> Vec<u64> {
    (0..len).map(|i| h64(&(seed, "c11-generic", n, t, idx, i)) % t).collect()
}

/// all slots distinct and non-zero (t > N always holds for batching t)
fn gen_distinct(seed: u64, n: usize, t: u64) -> Vec<u64> {
    let c = 1 + h64(&(seed, "c11-distinct", n, t)) % (t - 1);
    (0..n).map(|i| mul_mod(i as u64 + 1, c, t)).collect()
}

fn named_vectors(seed: u64, n: usize, t: u64, full: bool) -> Vec<(&'static str, Vec<u64>)> {
    let mut v = vec![
        ("generic", gen_fill(seed, n, t, 0, n)),
        ("max", vec![t - 1; n]),
        ("generic-row0", gen_fill(seed, n, t, 1, n / 2)),
    ];
    if full {
        v.push(("generic2", gen_fill(seed, n, t, 2, n)));
        v.push(("ones", vec![1; n]));
        v.push(("ramp", (0..n as u64).map(|i| i % t).collect()));
        v.push(("alt", (0..n).map(|i| if i % 2 == 0 { 0 } else { t - 1 }).collect()));
        v.push(("zero", vec![0; n]));
        v.push(("distinct", gen_distinct(seed, n, t)));
    }
    v
}

macro_rules! fail {
    ($key:expr, $exp:expr, $obs:expr) => {
        return CaseOut::fail($key, $exp, $obs)
    };
}

/// encode (guarded) + shape; Err = finished CaseOut
fn encode_checked(e: &Env, sec: &str, class: &str, v: &[u64]) -> Result<Plaintext, CaseOut> {
    let p = guard(|| e.be.encode_new(v)).map_err(|m| {
        CaseOut::fail(format!("{sec}:encode:{class}:panic:{}", panic_class(&m)), format!("{:?} N={} t={}: encode({}) returns", e.sch, e.n, e.t, fv(v)), m)
    })?;
    if let Some(pb) = meta_problem(&p, e.n, e.t) {
        return Err(CaseOut::fail(
            format!("{sec}:encode:{class}:shape"),
            format!("{:?} N={} t={}: encode({}) has N coefficients < t, coefficient form", e.sch, e.n, e.t, fv(v)),
            pb,
        ));
    }
    Ok(p)
}

fn decode_checked(e: &Env, sec: &str, class: &str, p: &Plaintext, expect: &[u64], what: &str) -> Result<(), CaseOut> {
    let d = guard(|| e.be.decode_new(p)).map_err(|m| {
        CaseOut::fail(format!("{sec}:decode:{class}:panic:{}", panic_class(&m)), format!("{:?} N={} t={}: decode of {what} returns", e.sch, e.n, e.t), m)
    })?;
    if d != expect {
        return Err(CaseOut::fail(
            format!("{sec}:decode:{class}:wrong"),
            format!("{:?} N={} t={} psi={}: decode of {what} = {}", e.sch, e.n, e.t, e.psi, fv(expect)),
            format!("{} ({})", fv(&d), first_diff(expect, &d)),
        ));
    }
    Ok(())
}

/// naive evaluation of the polynomial at every slot root == v (padded)
fn eval_checked(e: &Env, sec: &str, class: &str, p: &Plaintext, v: &[u64]) -> Result<(), CaseOut> {
    let vp = pad(v, e.n);
    for i in 0..e.n {
        let x = peval(p.data(), e.roots[i], e.t);
        if x != vp[i] {
            let (row, col) = (i / (e.n / 2).max(1), i % (e.n / 2).max(1));
            return Err(CaseOut::fail(
                format!("{sec}:encode:{class}:wrong"),
                format!("{:?} N={} t={} psi={}: encode({}) evaluated at the root of slot {i} (row {row}, column {col}: {}) = {}", e.sch, e.n, e.t, e.psi, fv(v), e.roots[i], vp[i]),
                format!("{x}; polynomial {}", fv(p.data())),
            ));
        }
    }
    Ok(())
}

/// x -> x * w mod t for a fixed w < t < 2^63 with the quotient w * 2^64 / t precomputed (the inner loops of the closed forms multiply
/// N times by the same constant; a 128-bit remainder per product is ten times slower). With q = floor(floor(w 2^64 / t) x / 2^64) one
/// has floor(w x / t) - 1 <= q <= floor(w x / t), hence w x - q t lies in [0, 2t). Compared with `mul_mod` in `setup` of every case.
#[derive(Clone, Copy)]
struct MulC {
    w: u64,
    wq: u64,
}

impl MulC {
    fn new(w: u64, t: u64) -> Self {
        MulC { w, wq: (((w as u128) << 64) / t as u128) as u64 }
    }
    fn mul(self, x: u64, t: u64) -> u64 {
        let q = ((self.wq as u128 * x as u128) >> 64) as u64;
        let r = self.w.wrapping_mul(x).wrapping_sub(q.wrapping_mul(t));
        if r >= t {
            r - t
        } else {
            r
        }
    }
}

/// MulC == mul_mod on 16 constants x 40 arguments (extremes and generic)
fn mulc_selfcheck(t: u64) -> Result<(), String> {
    let mut al: Vec<u64> = vec![0, 1, 2, t / 2, t / 2 + 1, t - 2, t - 1];
    al.extend((0..33u64).map(|i| h64(&("c11-mulc", t, i)) % t));
    al.retain(|&x| x < t);
    for &w in &al[..16.min(al.len())] {
        let c = MulC::new(w, t);
        for &x in &al {
            if c.mul(x, t) != mul_mod(x, w, t) {
                return Err(format!("{x} * {w} mod {t}: {} vs {}", c.mul(x, t), mul_mod(x, w, t)));
            }
        }
    }
    Ok(())
}

/// a + b mod t for a, b < t < 2^63
fn add_lt(a: u64, b: u64, t: u64) -> u64 {
    let s = a + b;
    if s >= t {
        s - t
    } else {
        s
    }
}

/// the indices below `len` next to a block / table boundary: 0, 1, 2^k - 1, 2^k, 2^k + 1 (2^k >= 8), len/2 - 1, len/2, len/2 + 1, len - 2, len - 1
fn boundary(len: usize) -> Vec<usize> {
    let mut v = vec![0usize, 1, len / 2, len / 2 + 1];
    for x in [len / 2, len.saturating_sub(1), len] {
        if x >= 1 {
            v.push(x - 1);
        }
    }
    let mut p = 8usize;
    while p <= len {
        v.extend([p - 1, p, p + 1]);
        p *= 2;
    }
    v.retain(|&x| x < len);
    v.sort();
    v.dedup();
    v
}

/// the polynomial evaluated at every slot root through the fast reference transform (out[i] = a(psi^(2 brv(i) + 1)), so the value
/// at psi^x sits at index brv((x-1)/2)) == v (padded); the boundary slots are evaluated by Horner's rule as well
fn eval_fast_checked(e: &Env, sec: &str, class: &str, p: &Plaintext, v: &[u64]) -> Result<(), CaseOut> {
    let f = fast_ntt(p.data(), e.psi, e.t);
    slots_of_transform_checked(e, sec, class, p, &f, v, true)
}

/// `f` = fast reference transform of the polynomial `p`: the values at the slot roots == v (padded)
fn slots_of_transform_checked(e: &Env, sec: &str, class: &str, p: &Plaintext, f: &[u64], v: &[u64], horner_too: bool) -> Result<(), CaseOut> {
    let (n, t) = (e.n, e.t);
    let vp = pad(v, n);
    let bits = n.trailing_zeros();
    let bd = if horner_too { boundary(n) } else { vec![] };
    for i in 0..n {
        let x = f[bit_reverse((e.exps[i] - 1) / 2, bits)];
        let horner = if bd.binary_search(&i).is_ok() { peval(p.data(), e.roots[i], t) } else { x };
        if x != vp[i] || horner != vp[i] {
            let (row, col) = (i / (n / 2).max(1), i % (n / 2).max(1));
            return Err(CaseOut::fail(
                format!("{sec}:encode:{class}:wrong"),
                format!("{:?} N={n} t={t} psi={}: encode({}) evaluated at the root of slot {i} (row {row}, column {col}: {}) = {}", e.sch, e.psi, fv(v), e.roots[i], vp[i]),
                format!("{x} (fast transform){}; polynomial {}", if bd.binary_search(&i).is_ok() { format!(" / {horner} (Horner)") } else { String::new() }, fv(p.data())),
            ));
        }
    }
    Ok(())
}

macro_rules! tri {
    ($e:expr) => {
        match $e {
            Ok(x) => x,
            Err(o) => return o,
        }
    };
}

fn outcome(e: &Env, sec: &str, extra: u64) -> u64 {
    h64(&(sec, e.sch, e.n.trailing_zeros(), 64 - e.t.leading_zeros(), e.batching, e.psi_min_checked, extra))
}

// ---------------------------------------------------------------------------------------------
// section `slots`
// ---------------------------------------------------------------------------------------------

fn check_slots(c: &Case, seed: u64) -> CaseOut {
    check_slots_in(c, seed, "slots", false)
}

/// `lite` (large N): one value per unit vector / monomial (alternating 1 and t-1), the generic polynomial of every stored length
/// k+1 decoded against the running sum of its monomials, and the generic / extreme vectors evaluated through the fast reference
/// transform (all N slots) plus Horner at the boundary slots.
fn check_slots_in(c: &Case, seed: u64, sec: &str, lite: bool) -> CaseOut {
    let e = tri!(setup(c, seed, sec));
    if !e.batching {
        return CaseOut::skip("no batching for this plain modulus");
    }
    let (n, t) = (e.n, e.t);
    let mut steps = 0u64;
    if c.first() && (e.be.slot_count() != n || e.be.row_count() != 2 || e.be.column_count() != n / 2 || e.be.get_plain_modulus() != t) {
        fail!(
            format!("{sec}:shape"),
            format!("slot_count {n}, 2 rows, {} columns, plain modulus {t}", n / 2),
            format!("{} / {} / {} / {}", e.be.slot_count(), e.be.row_count(), e.be.column_count(), e.be.get_plain_modulus())
        );
    }
    // the public bit-reversal helper: out[i] = in[bit_reverse(i)] on a vector of distinct entries
    if c.first() {
        let mut w: Vec<u64> = (0..n as u64).map(|i| i * 3 + 1).collect();
        let exp: Vec<u64> = (0..n).map(|i| bit_reverse(i, n.trailing_zeros()) as u64 * 3 + 1).collect();
        if let Err(m) = guard(|| e.be.reverse_bits(&mut w)) {
            fail!(format!("{sec}:reverse_bits:panic:{}", panic_class(&m)), format!("N={n}: reverse_bits on N entries returns"), m);
        }
        if w != exp {
            fail!(format!("{sec}:reverse_bits:wrong"), format!("N={n}: {}", fv(&exp)), fv(&w));
        }
        steps += 1;
    }
    let ninv = inv_mod_u64(n as u64 % t, t).unwrap();
    // unit vectors: closed form of the Lagrange basis
    for j in c.chunk(n) {
        let rinv = MulC::new(pow_mod(e.roots[j], 2 * n as u64 - 1, t), t);
        let forms: Vec<(u64, usize)> = if !lite {
            vec![(1, n), (t - 1, j + 1)]
        } else if j % 2 == 0 {
            vec![(1, n)]
        } else {
            vec![(t - 1, j + 1)]
        };
        for (val, len) in forms {
            let mut v = vec![0u64; len];
            v[j] = val;
            let p = tri!(encode_checked(&e, sec, "unit", &v));
            let mut cexp = mul_mod(val, ninv, t);
            for k in 0..n {
                if p.data()[k] != cexp {
                    fail!(
                        format!("{sec}:encode:unit:wrong"),
                        format!("{:?} N={n} t={t} psi={}: encode({val} * e_{j}) coefficient {k} = {val} * N^-1 * r^-{k} = {cexp} with r = root of slot {j} = {}", e.sch, e.psi, e.roots[j]),
                        format!("{}; polynomial {}", p.data()[k], fv(p.data()))
                    );
                }
                cexp = rinv.mul(cexp, t);
            }
            tri!(decode_checked(&e, sec, "unit", &p, &pad(&v, n), &format!("encode({val} * e_{j})")));
            steps += 2;
        }
    }
    // monomials c * X^k decode to c * r_i^k
    let kr = c.chunk(n);
    let mut pw: Vec<u64> = e.roots.iter().map(|&r| pow_mod(r, kr.start as u64, t)).collect();
    let rc: Vec<MulC> = e.roots.iter().map(|&r| MulC::new(r, t)).collect();
    // lite: the generic polynomial g_0 + .. + g_k X^k stored with k+1 coefficients decodes to the running sum of g_k * r_i^k. A chunk
    // that does not start at k = 0 takes the library's decoding of the preceding prefix as its base (judged by the preceding chunk).
    let g: Vec<u64> = if lite { gen_fill(seed, n, t, 10, n).iter().map(|&x| x.max(1)).collect() } else { vec![] };
    let shown_g = fv(&g);
    let bd = boundary(n);
    let mut acc = vec![0u64; n];
    if lite && kr.start > 0 {
        acc = match guard(|| e.be.decode_new(&mk_plain(&g[..kr.start]))) {
            Ok(d) if d.len() == n => d,
            Ok(d) => fail!(format!("{sec}:decode:prefix:shape"), format!("N={n}: decode returns N values"), format!("{} values", d.len())),
            Err(m) => fail!(format!("{sec}:decode:prefix:panic:{}", panic_class(&m)), format!("{:?} N={n} t={t}: decode of a {}-coefficient plaintext returns", e.sch, kr.start), m),
        };
    }
    for k in kr {
        let forms: Vec<(u64, usize)> = if !lite {
            vec![(1, k + 1), (t - 1, n)]
        } else if bd.binary_search(&k).is_err() {
            // lite: the prefix family below contains the monomial X^k as the difference of two consecutive prefixes
            vec![]
        } else if k % 2 == 0 {
            vec![(1, k + 1)]
        } else {
            vec![(t - 1, k + 1)]
        };
        for (cv, len) in forms {
            let mut co = vec![0u64; len];
            co[k] = cv;
            // c in {1, t-1}: c * x = x resp. -x (the roots are non-zero)
            let exp: Vec<u64> = pw.iter().map(|&x| if cv == 1 { x } else { t - x }).collect();
            tri!(decode_checked(&e, sec, "monomial", &mk_plain(&co), &exp, &format!("{cv} * X^{k} (coeff_count {len})")));
            steps += 1;
        }
        if lite {
            let gk = MulC::new(g[k], t);
            for i in 0..n {
                acc[i] = add_lt(acc[i], gk.mul(pw[i], t), t);
            }
            tri!(decode_checked(&e, sec, "prefix", &mk_plain(&g[..=k]), &acc, &format!("the first {} coefficients of the polynomial {shown_g}", k + 1)));
            steps += 1;
        }
        for i in 0..n {
            pw[i] = rc[i].mul(pw[i], t);
        }
    }
    // the empty plaintext is the zero polynomial
    if c.first() {
        tri!(decode_checked(&e, sec, "empty", &Plaintext::new(), &vec![0; n], "the empty plaintext"));
        steps += 1;
    }
    // generic and extreme vectors: naive evaluation at the N roots
    for (idx, (name, v)) in named_vectors(seed, n, t, lite || n <= 1024).into_iter().enumerate() {
        if !c.mine(idx) {
            continue;
        }
        let class = if name.starts_with("generic") { "generic" } else { "extreme" };
        let p = tri!(encode_checked(&e, sec, class, &v));
        if lite {
            tri!(eval_fast_checked(&e, sec, class, &p, &v));
        } else {
            tri!(eval_checked(&e, sec, class, &p, &v));
        }
        tri!(decode_checked(&e, sec, class, &p, &pad(&v, n), &format!("encode({name} = {})", fv(&v))));
        steps += 2;
    }
    CaseOut::pass(steps > 0, outcome(&e, sec, lite as u64), steps)
}

// ---------------------------------------------------------------------------------------------
// section `lengths`
// ---------------------------------------------------------------------------------------------

fn check_lengths(c: &Case, seed: u64) -> CaseOut {
    check_lengths_in(c, seed, "lengths", false)
}

/// `lite` (large N): one encode and one decode per length, both into a destination that is fresh / used with N entries / used with
/// another length in turn
fn check_lengths_in(c: &Case, seed: u64, sec: &str, lite: bool) -> CaseOut {
    let e = tri!(setup(c, seed, sec));
    if !e.batching {
        return CaseOut::skip("no batching for this plain modulus");
    }
    let (n, t) = (e.n, e.t);
    let g = gen_fill(seed, n, t, 3, n).iter().map(|&x| if x == 0 { 1 } else { x }).collect::<Vec<u64>>();
    let ninv = inv_mod_u64(n as u64 % t, t).unwrap();
    let shown_g = fv(&g);
    let mut steps = 0u64;
    // expected encoding, built incrementally from the closed-form unit encodings: encode(g[..len]) = encode(g[..len-1]) + g[len-1] * U_{len-1}.
    // A chunk that does not start at length 0 takes the library's encoding of the preceding length as its base (that one is judged by
    // the preceding chunk), so the chain of all chunks is anchored at encode([]) = 0.
    let lr = c.chunk(n + 1);
    let mut expect = vec![0u64; n];
    if lr.start > 0 {
        expect = tri!(encode_checked(&e, sec, "short", &g[..lr.start - 1])).data().clone();
    }
    for len in lr {
        if len > 0 {
            let j = len - 1;
            let rinv = MulC::new(pow_mod(e.roots[j], 2 * n as u64 - 1, t), t);
            let mut cf = mul_mod(g[j], ninv, t);
            for k in 0..n {
                expect[k] = add_lt(expect[k], cf, t);
                cf = rinv.mul(cf, t);
            }
        }
        let v = &g[..len];
        if lite {
            // the destination forms only (encode_new / decode_new are these on a fresh destination): the destination is fresh, junk of
            // N entries or junk of another length, in turn
            let mut p = match len % 3 {
                0 => Plaintext::new(),
                1 => mk_plain(&vec![t - 1; n]),
                _ => mk_plain(&vec![t - 1; (len * 5) % n + 1]),
            };
            if let Err(m) = guard(|| e.be.encode(v, &mut p)) {
                fail!(format!("{sec}:encode-into:panic:{}", panic_class(&m)), format!("{:?} N={n} t={t}: encode(len {len}) into a used plaintext returns", e.sch), m);
            }
            if let Some(pb) = meta_problem(&p, n, t) {
                fail!(format!("{sec}:encode:short:shape"), format!("{:?} N={n} t={t}: encode(len {len}) has N coefficients < t, coefficient form", e.sch), pb);
            }
            if p.data().as_slice() != expect.as_slice() {
                fail!(
                    format!("{sec}:encode:short:wrong"),
                    format!("{:?} N={n} t={t} psi={}: encode(first {len} entries of {}) = sum of closed-form unit encodings = {}", e.sch, e.psi, fv(&g), fv(&expect)),
                    format!("{} ({})", fv(p.data()), first_diff(&expect, p.data()))
                );
            }
            let mut dd = match len % 4 {
                0 => vec![],
                1 => vec![7u64; n],
                _ => vec![7u64; (len * 3) % (2 * n + 1)],
            };
            if let Err(m) = guard(|| e.be.decode(&p, &mut dd)) {
                fail!(format!("{sec}:decode-into:panic:{}", panic_class(&m)), format!("{:?} N={n} t={t}: decode of encode(len {len}) into a used vector returns", e.sch), m);
            }
            if dd != pad(v, n) {
                fail!(
                    format!("{sec}:decode:short:wrong"),
                    format!("{:?} N={n} t={t}: decode of encode(first {len} entries of {shown_g}) = {}", e.sch, fv(&pad(v, n))),
                    format!("{} ({})", fv(&dd), first_diff(&pad(v, n), &dd))
                );
            }
            steps += 2;
            continue;
        }
        let p = tri!(encode_checked(&e, sec, "short", v));
        if p.data().as_slice() != expect.as_slice() {
            fail!(
                format!("{sec}:encode:short:wrong"),
                format!("{:?} N={n} t={t} psi={}: encode(first {len} entries of {}) = sum of closed-form unit encodings = {}", e.sch, e.psi, fv(&g), fv(&expect)),
                format!("{} ({})", fv(p.data()), first_diff(&expect, p.data()))
            );
        }
        // destination form on a dirty destination (junk of a different length)
        let mut dirty = mk_plain(&vec![t - 1; if len % 2 == 0 { n } else { (len % n).max(1) }]);
        if let Err(m) = guard(|| e.be.encode(v, &mut dirty)) {
            fail!(format!("{sec}:encode-into:panic:{}", panic_class(&m)), format!("{:?} N={n} t={t}: encode(len {len}) into a used plaintext returns", e.sch), m);
        }
        if dirty.data() != p.data() || dirty.coeff_count() != n || dirty.is_ntt_form() {
            fail!(
                format!("{sec}:encode-into:wrong"),
                format!("{:?} N={n} t={t}: encode(len {len}) into a used plaintext = encode_new = {}", e.sch, fv(p.data())),
                format!("{} coeff_count={}", fv(dirty.data()), dirty.coeff_count())
            );
        }
        tri!(decode_checked(&e, sec, "short", &p, &pad(v, n), &format!("encode(first {len} entries of {shown_g})")));
        // destination form of decode on a dirty destination
        let mut dd = vec![7u64; (len * 3) % (2 * n + 1)];
        if let Err(m) = guard(|| e.be.decode(&p, &mut dd)) {
            fail!(format!("{sec}:decode-into:panic:{}", panic_class(&m)), "decode into a used vector returns", m);
        }
        if dd != pad(v, n) {
            fail!(format!("{sec}:decode-into:wrong"), format!("{:?} N={n} t={t}: {}", e.sch, fv(&pad(v, n))), fv(&dd));
        }
        steps += 4;
    }
    // too long
    let mut refusals = 0u64;
    for len in if c.first() { vec![n + 1, 2 * n] } else { vec![] } {
        let v = vec![1u64; len];
        match guard(|| e.be.encode_new(&v)) {
            Err(_) => refusals += 1,
            Ok(p) => fail!(
                format!("{sec}:encode:too-long:accepted"),
                format!("{:?} N={n} t={t}: encode of {len} values is refused", e.sch),
                format!("returned a plaintext with {} coefficients", p.coeff_count())
            ),
        }
        let mut d = Plaintext::new();
        match guard(|| e.be.encode(&v, &mut d)) {
            Err(_) => refusals += 1,
            Ok(()) => fail!(format!("{sec}:encode:too-long:accepted"), format!("{:?} N={n} t={t}: encode of {len} values is refused", e.sch), "accepted (destination form)"),
        }
        steps += 2;
    }
    CaseOut::pass(steps > 0, outcome(&e, sec, refusals), steps)
}

// ---------------------------------------------------------------------------------------------
// section `exhaustive`
// ---------------------------------------------------------------------------------------------

fn next_vec(v: &mut [u64], from: usize, t: u64) -> bool {
    // odometer over positions from..len, last position fastest
    for i in (from..v.len()).rev() {
        if v[i] + 1 < t {
            v[i] += 1;
            return true;
        }
        v[i] = 0;
    }
    false
}

fn slotwise(u: &[u64], v: &[u64], t: u64, mul: bool) -> Vec<u64> {
    u.iter().zip(v).map(|(&a, &b)| if mul { mul_mod(a, b, t) } else { add_mod(a, b, t) }).collect()
}

/// encode(u) (+|*) encode(v) computed naively decodes to the slot-wise result
fn pair_checked(e: &Env, sec: &str, class: &str, u: &[u64], v: &[u64], pu: &Plaintext, pv: &Plaintext) -> Result<u64, CaseOut> {
    let (n, t) = (e.n, e.t);
    let (up, vp) = (pad(u, n), pad(v, n));
    let s = padd(pu.data(), pv.data(), t);
    decode_checked(e, sec, &format!("sum:{class}"), &mk_plain(&s), &slotwise(&up, &vp, t, false), &format!("encode({}) + encode({})", fv(u), fv(v)))?;
    let m = pmul(pu.data(), pv.data(), t);
    decode_checked(e, sec, &format!("product:{class}"), &mk_plain(&m), &slotwise(&up, &vp, t, true), &format!("encode({}) * encode({}) mod (X^N+1, t)", fv(u), fv(v)))?;
    Ok(2)
}

fn check_exhaustive(c: &Case, seed: u64) -> CaseOut {
    let sec = "exhaustive";
    let e = tri!(setup(c, seed, sec));
    let (n, t) = (e.n, e.t);
    let k = c.prefix.len();
    if k > n || c.prefix.iter().any(|&x| x >= t) {
        return CaseOut::skip("prefix outside Z_t^N");
    }
    let mut steps = 0u64;
    let all_pairs = (t as u128).pow(n as u32) <= 200;
    let partners: Vec<Vec<u64>> = if all_pairs {
        vec![]
    } else {
        let mut p = vec![vec![t - 1; n], gen_distinct(seed, n, t), gen_fill(seed, n, t, 4, n), (0..n as u64).map(|i| (i * i + 1) % t).collect::<Vec<u64>>()];
        for j in 0..n {
            let mut u = vec![0; n];
            u[j] = t - 1;
            p.push(u);
        }
        p
    };
    let mut partner_enc = vec![];
    for u in &partners {
        partner_enc.push(tri!(encode_checked(&e, sec, "partner", u)));
    }
    let mut seen = std::collections::BTreeSet::new();
    let mut all: Vec<(Vec<u64>, Plaintext)> = vec![];
    let mut v = vec![0u64; n];
    v[..k].copy_from_slice(&c.prefix);
    loop {
        let p = tri!(encode_checked(&e, sec, "all", &v));
        tri!(eval_checked(&e, sec, "all", &p, &v));
        tri!(decode_checked(&e, sec, "all", &p, &v, &format!("encode({})", fv(&v))));
        steps += 2;
        if !seen.insert(p.data().clone()) {
            fail!("exhaustive:encode:not-injective", "distinct vectors have distinct encodings", format!("second vector with encoding {}: {}", fv(p.data()), fv(&v)));
        }
        for (u, pu) in partners.iter().zip(&partner_enc) {
            steps += tri!(pair_checked(&e, sec, "all", &v, u, &p, pu));
        }
        if all_pairs {
            all.push((v.clone(), p));
        }
        if !next_vec(&mut v, k, t) {
            break;
        }
    }
    for (u, pu) in &all {
        for (w, pw) in &all {
            steps += tri!(pair_checked(&e, sec, "all", u, w, pu, pw));
        }
    }
    CaseOut::pass(steps > 0, outcome(&e, sec, seen.len().min(1000) as u64), steps)
}

// ---------------------------------------------------------------------------------------------
// section `ring`
// ---------------------------------------------------------------------------------------------

fn check_ring(c: &Case, seed: u64, unit_nmax: usize) -> CaseOut {
    let sec = "ring";
    let e = tri!(setup(c, seed, sec));
    let (n, t) = (e.n, e.t);
    let mut steps = 0u64;
    if n <= unit_nmax && c.first() {
        let mut units: Vec<(Vec<u64>, Plaintext)> = vec![];
        for j in 0..n {
            for val in [1, t - 1] {
                let mut v = vec![0u64; n];
                v[j] = val;
                let p = tri!(encode_checked(&e, sec, "unit", &v));
                units.push((v, p));
            }
        }
        for (u, pu) in &units {
            for (w, pw) in &units {
                steps += tri!(pair_checked(&e, sec, "unit", u, w, pu, pw));
            }
        }
        // generic x unit
        let g = gen_fill(seed, n, t, 5, n);
        let pg = tri!(encode_checked(&e, sec, "generic", &g));
        for (u, pu) in &units {
            steps += tri!(pair_checked(&e, sec, "generic-unit", &g, u, &pg, pu));
        }
    }
    let vs = named_vectors(seed, n, t, n <= 256);
    let mut encs = vec![];
    for (_, v) in &vs {
        encs.push(tri!(encode_checked(&e, sec, "generic", v)));
    }
    let mut idx = 0;
    for (i, (_, u)) in vs.iter().enumerate() {
        for (j, (_, w)) in vs.iter().enumerate() {
            // beyond N = 256 only the upper triangle (the naive product is O(N^2))
            if n > 256 && j < i {
                continue;
            }
            idx += 1;
            if !c.mine(idx - 1) {
                continue;
            }
            steps += tri!(pair_checked(&e, sec, "generic", u, w, &encs[i], &encs[j]));
        }
    }
    CaseOut::pass(steps > 0, outcome(&e, sec, (n <= unit_nmax) as u64), steps)
}

// ---------------------------------------------------------------------------------------------
// section `galois`
// ---------------------------------------------------------------------------------------------

/// m(X) -> m(X^g) modulo (X^N+1, t) for odd g and N coefficients < t: i -> i g mod 2N is a bijection of the exponents, so every
/// coefficient of the image is one coefficient of m or its negative (the same definition as `pgalois` without a sum per term)
fn pgalois_odd(a: &[u64], g: usize, t: u64) -> Vec<u64> {
    let n = a.len();
    let mut r = vec![0u64; n];
    for i in 0..n {
        let x = (i * g) % (2 * n);
        if x < n {
            r[x] = a[i];
        } else {
            r[x - n] = if a[i] == 0 { 0 } else { t - a[i] };
        }
    }
    r
}

/// both rows rotated left by s (s may be negative), rows exchanged first if `swap`
fn rotate_matrix(v: &[u64], s: isize, swap: bool) -> Vec<u64> {
    let n = v.len();
    let h = n / 2;
    let sh = s.rem_euclid(h as isize) as usize;
    let mut r = vec![0u64; n];
    for i in 0..h {
        let (a, b) = (v[(i + sh) % h], v[h + (i + sh) % h]);
        if swap {
            r[i] = b;
            r[h + i] = a;
        } else {
            r[i] = a;
            r[h + i] = b;
        }
    }
    r
}

fn check_galois(c: &Case, seed: u64) -> CaseOut {
    check_galois_in(c, seed, "galois", false)
}

/// `lite` (large N): every step's element is also compared with 3^(s mod N/2) mod 2N (the only element whose automorphism rotates
/// both rows left by s) and applied to one of two unit-slot plaintexts (by the parity of s); the elements +-3^s (and the column swap) are applied to the
/// all-distinct plaintext; the in-place / destination forms are compared at the first step / element of the chunk only.
fn check_galois_in(c: &Case, seed: u64, sec: &str, lite: bool) -> CaseOut {
    let e = tri!(setup(c, seed, sec));
    if !e.batching {
        return CaseOut::skip("no batching for this plain modulus");
    }
    let (n, t) = (e.n, e.t);
    let (h, m) = (n / 2, 2 * n);
    let eval = match guard(|| Evaluator::new(e.ctx.clone())) {
        Ok(x) => x,
        Err(msg) => fail!(format!("{sec}:evaluator:{}", panic_class(&msg)), "Evaluator::new", msg),
    };
    let tool = e.ctx.key_context_data().unwrap();
    let tool = tool.verif_galois_tool();
    let mut steps = 0u64;

    let mut vs: Vec<(&str, Vec<u64>)> = vec![];
    if lite {
        // 1 in row 0, column 1 (an input of length 2); t-1 in row 1, column N/2-2; all slots distinct
        vs.push(("unit-a", vec![0, 1][..2.min(n)].to_vec()));
        let mut u = vec![0u64; n];
        u[h + h.saturating_sub(2)] = t - 1;
        vs.push(("unit-b", u));
        vs.push(("distinct", gen_distinct(seed, n, t)));
    } else {
        vs.push(("distinct", gen_distinct(seed, n, t)));
        vs.push(("generic-short", gen_fill(seed, n, t, 6, h + 1)));
        let mut u = vec![0u64; n];
        u[1 % n] = t - 1;
        vs.push(("unit", u));
        if n <= 64 {
            vs.push(("max", vec![t - 1; n]));
            vs.push(("generic", gen_fill(seed, n, t, 7, n)));
        }
    }
    let mut encs = vec![];
    for (_, v) in &vs {
        encs.push(tri!(encode_checked(&e, sec, "input", v)));
    }
    let shown: Vec<String> = vs.iter().map(|(_, v)| fv(v)).collect();
    let every: Vec<usize> = (0..vs.len()).collect();
    let last_only: Vec<usize> = vec![vs.len() - 1];
    let units_only: Vec<usize> = vec![0, 1];

    // one Galois element on the inputs `which`: polynomial == naive X -> X^g, decoded matrix == expected
    let apply = |g: usize, s: isize, swap: bool, class: &str, what: &str, which: &[usize], forms: bool, steps: &mut u64| -> Result<(), CaseOut> {
        for &wi in which {
            let ((name, v), p) = (&vs[wi], &encs[wi]);
            let r = guard(|| eval.apply_galois_plain_new(p, g)).map_err(|msg| {
                CaseOut::fail(format!("{sec}:apply:{class}:panic:{}", panic_class(&msg)), format!("{:?} N={n} t={t}: apply_galois_plain(encode({name}), {g}) [{what}] returns", e.sch), msg)
            })?;
            if let Some(pb) = meta_problem(&r, n, t) {
                return Err(CaseOut::fail(format!("{sec}:apply:{class}:shape"), format!("{:?} N={n} t={t}: element {g} [{what}] gives N coefficients < t", e.sch), pb));
            }
            let pref = if lite && g % 2 == 1 { pgalois_odd(p.data(), g, t) } else { pgalois(p.data(), g, t) };
            if r.data().as_slice() != pref.as_slice() {
                return Err(CaseOut::fail(
                    format!("{sec}:apply:{class}:polynomial-wrong"),
                    format!("{:?} N={n} t={t}: m(X) -> m(X^{g}) [{what}] of {} = {}", e.sch, fv(p.data()), fv(&pref)),
                    format!("{} ({})", fv(r.data()), first_diff(&pref, r.data())),
                ));
            }
            let exp = rotate_matrix(&pad(v, n), s, swap);
            decode_checked(
                &e,
                sec,
                class,
                &r,
                &exp,
                &format!("apply_galois_plain(encode({name} = {}), {g}) [{what}: rows {}rotated left by {s}]", shown[wi], if swap { "exchanged and " } else { "" }),
            )?;
            *steps += 2;
            if !forms {
                continue;
            }
            // the other two forms agree
            let mut a = p.clone();
            let mut b = Plaintext::new();
            let other = guard(|| {
                eval.apply_galois_plain_inplace(&mut a, g);
                eval.apply_galois_plain(p, g, &mut b);
            });
            if other.is_err() || a.data() != r.data() || b.data() != r.data() || a.coeff_count() != n || b.coeff_count() != n {
                return Err(CaseOut::fail(
                    format!("{sec}:apply:{class}:forms-differ"),
                    format!("{:?} N={n} t={t}: inplace / destination forms of apply_galois_plain(.., {g}) equal the _new form", e.sch),
                    format!("{:?} / {} / {}", other.err(), fv(a.data()), fv(b.data())),
                ));
            }
            *steps += 2;
        }
        Ok(())
    };

    // (i) every rotation step, element taken from the library
    let mut refusals = 0u64;
    let hs = h as isize;
    // steps -(N/2-1)..N/2-1 are positions 0..N-2 of the chunked range
    let my_steps: Vec<isize> = c.chunk(n - 1).map(|x| x as isize - (hs - 1)).collect();
    let mut my_elts: Vec<usize> = vec![];
    for (si, &s) in my_steps.iter().enumerate() {
        let g = match guard(|| tool.get_elt_from_step(s)) {
            Ok(g) => g,
            Err(msg) => fail!(format!("{sec}:elt_from_step:panic:{}", panic_class(&msg)), format!("N={n}: get_elt_from_step({s}) returns (|s| < N/2)"), msg),
        };
        steps += 1;
        my_elts.push(g);
        if lite {
            // rotation by s (left for s > 0, right for s < 0) = 3^(s mod N/2); step 0 names the column swap 2N-1
            let want = if s == 0 { m - 1 } else { pow_mod(3, s.rem_euclid(hs) as u64, m as u64) as usize };
            if g != want {
                fail!(
                    format!("{sec}:elt_from_step:wrong"),
                    format!("N={n}: get_elt_from_step({s}) = {}", if s == 0 { format!("2N-1 = {want}") } else { format!("3^({s} mod N/2) mod 2N = {want}") }),
                    format!("{g}")
                );
            }
        }
        let forms = !lite || si == 0;
        if s == 0 {
            // documented convention (as in SEAL): step 0 names the column swap
            tri!(apply(g, 0, true, "swap", "get_elt_from_step(0) = column swap", &every, forms, &mut steps));
        } else {
            tri!(apply(g, s, false, "step", &format!("get_elt_from_step({s})"), if lite { &units_only[s.rem_euclid(2) as usize..s.rem_euclid(2) as usize + 1] } else { &every }, forms, &mut steps));
        }
        // the context's other tools agree (first level)
        let g2 = guard(|| e.ctx.first_context_data().unwrap().verif_galois_tool().get_elt_from_step(s));
        if g2.as_ref().ok() != Some(&g) {
            fail!(format!("{sec}:elt_from_step:levels-differ"), format!("{g}"), format!("{g2:?}"));
        }
    }
    // the list form names the same elements
    if lite && !my_steps.is_empty() {
        match guard(|| tool.get_elts_from_steps(&my_steps)) {
            Ok(l) if l == my_elts => steps += 1,
            Ok(l) => fail!(format!("{sec}:elts_from_steps:wrong"), format!("N={n}: get_elts_from_steps of {} steps = the elements of the single steps ({})", my_steps.len(), first_diff(&my_elts.iter().map(|&x| x as u64).collect::<Vec<_>>(), &l.iter().map(|&x| x as u64).collect::<Vec<_>>())), format!("{} elements", l.len())),
            Err(msg) => fail!(format!("{sec}:elts_from_steps:panic:{}", panic_class(&msg)), format!("N={n}: get_elts_from_steps of {} steps with |s| < N/2 returns", my_steps.len()), msg),
        }
    }
    // column swap by its documented element 2N-1
    if c.first() {
        tri!(apply(m - 1, 0, true, "swap", "2N-1 = column swap", &every, true, &mut steps));
    }
    // out-of-range steps: refused, or a correct rotation modulo N/2
    for s in if c.first() { vec![hs, -hs, hs + 1] } else { vec![] } {
        match guard(|| tool.get_elt_from_step(s)) {
            Err(_) => refusals += 1,
            Ok(g) => {
                if g % 2 == 1 && g < m {
                    tri!(apply(g, s, false, "step-out-of-range", &format!("get_elt_from_step({s})"), &every, true, &mut steps));
                } else {
                    fail!(format!("{sec}:elt_from_step:out-of-range:invalid-element"), format!("N={n}: get_elt_from_step({s}) refuses or names a rotation by {s} mod N/2"), format!("{g}"));
                }
            }
        }
    }
    // (ii) the whole Galois group: g = 3^s -> rotation by s; g = -3^s -> swap and rotation by s
    let mut pw = 1usize;
    let mut seen = vec![false; m];
    let sr = c.chunk(h.max(1));
    for s in 0..h.max(1) {
        for (g, swap) in [(pw, false), (m - pw, true)] {
            if seen[g] {
                fail!(format!("{sec}:reference:group-enumeration"), "+-3^s enumerate the odd residues once", format!("{g} twice"));
            }
            seen[g] = true;
            if !sr.contains(&s) {
                continue;
            }
            let forms = !lite || s == sr.start;
            tri!(apply(g, s as isize, swap, "element", &format!("{}3^{s} mod 2N", if swap { "-" } else { "" }), if lite { &last_only } else { &every }, forms, &mut steps));
        }
        pw = pw * 3 % m;
    }
    if (1..m).step_by(2).any(|g| !seen[g]) {
        fail!(format!("{sec}:reference:group-enumeration"), "every odd residue is +-3^s", "some odd residue missed");
    }
    // (iii) get_elts_all = column swap and rotations by +-2^k, k < log2(N/2)
    if !c.first() {
        return CaseOut::pass(steps > 0, outcome(&e, sec, refusals), steps);
    }
    let got = match guard(|| tool.get_elts_all()) {
        Ok(x) => x,
        Err(msg) => fail!(format!("{sec}:elts_all:panic:{}", panic_class(&msg)), "get_elts_all returns", msg),
    };
    steps += 1;
    let mut want = std::collections::BTreeSet::new();
    want.insert(m - 1);
    let mut st = 1usize;
    while st < h {
        want.insert(pow_mod(3, st as u64, m as u64) as usize);
        want.insert(pow_mod(3, (h - st) as u64, m as u64) as usize);
        st *= 2;
    }
    let gotset: std::collections::BTreeSet<usize> = got.iter().cloned().collect();
    if gotset != want {
        fail!(format!("{sec}:elts_all:wrong"), format!("N={n}: {{2N-1}} and 3^(+-2^k) mod 2N for 2^k < N/2 = {want:?}"), format!("{got:?}"));
    }
    CaseOut::pass(steps > 0, outcome(&e, sec, refusals), steps)
}

// ---------------------------------------------------------------------------------------------
// section `galois_short` (opt-in: VERIF_C11_SHORT_PLAIN=1) — outside the statement of C11, which only speaks about encode(v)
// (always N coefficients): apply_galois_plain on valid plaintexts that store fewer than N coefficients (encode_polynomial of a
// short list, or the result of decrypt, which trims leading zero coefficients).
// ---------------------------------------------------------------------------------------------

fn check_galois_short(c: &Case, seed: u64) -> CaseOut {
    let sec = "galois_short";
    let e = tri!(setup(c, seed, sec));
    let (n, t) = (e.n, e.t);
    let (h, m) = (n / 2, 2 * n);
    let eval = match guard(|| Evaluator::new(e.ctx.clone())) {
        Ok(x) => x,
        Err(msg) => fail!(format!("galois_short:evaluator:{}", panic_class(&msg)), "Evaluator::new", msg),
    };
    let mut steps = 0u64;
    let lens: Vec<usize> = if n <= 16 { (1..=n).chain([0]).collect() } else { vec![1, 2, h, n - 1, n, 0] };
    for len in lens {
        let co: Vec<u64> = gen_fill(seed, n, t, 9, len).iter().map(|&x| x.max(1)).collect();
        let p = mk_plain(&co);
        let slots: Vec<u64> = e.roots.iter().map(|&r| peval(&co, r, t)).collect();
        let mut pw = 1usize;
        for s in 0..h.max(1) {
            for (g, swap) in [(pw, false), (m - pw, true)] {
                let r = match guard(|| eval.apply_galois_plain_new(&p, g)) {
                    Ok(r) => r,
                    Err(msg) => fail!(
                        format!("galois_short:apply:panic:{}", panic_class(&msg)),
                        format!("{:?} N={n} t={t}: apply_galois_plain(valid plaintext with {len} coefficients {}, {g}) returns", e.sch, fv(&co)),
                        msg
                    ),
                };
                let pref = pgalois(&pad(&co, n), g, t);
                if r.data().len() > n || r.coeff_count() != r.data().len() || pad(r.data(), n) != pref {
                    fail!(
                        "galois_short:apply:polynomial-wrong",
                        format!("{:?} N={n} t={t}: m(X) -> m(X^{g}) of {} = {}", e.sch, fv(&co), fv(&pref)),
                        format!("{} coeff_count={}", fv(r.data()), r.coeff_count())
                    );
                }
                tri!(decode_checked(&e, sec, "element", &r, &rotate_matrix(&slots, s as isize, swap), &format!("apply_galois_plain({} ({len} coefficients), {g})", fv(&co))));
                steps += 2;
            }
            pw = pw * 3 % m;
        }
    }
    CaseOut::pass(steps > 0, outcome(&e, sec, 0), steps)
}

// ---------------------------------------------------------------------------------------------
// section `polynomial`
// ---------------------------------------------------------------------------------------------

fn check_polynomial(c: &Case, seed: u64) -> CaseOut {
    let sec = "polynomial";
    let e = tri!(setup(c, seed, sec));
    let (n, t) = (e.n, e.t);
    let mut steps = 0u64;
    let alphabet = [0u64, 1, t - 1, t, t + 1, u64::MAX];
    let lengths: Vec<usize> = if n <= 64 {
        (0..=n).collect()
    } else {
        let mut l = vec![0, 1, 2, 3, n / 2, n - 1, n];
        l.dedup();
        l
    };
    let one = |vals: &[u64], class: &str, steps: &mut u64| -> Result<(), CaseOut> {
        let exp: Vec<u64> = vals.iter().map(|&x| x % t).collect();
        let p = guard(|| e.be.encode_polynomial_new(vals)).map_err(|m| {
            CaseOut::fail(format!("polynomial:encode:{class}:panic:{}", panic_class(&m)), format!("{:?} N={n} t={t}: encode_polynomial({}) returns", e.sch, fv(vals)), m)
        })?;
        if p.data().as_slice() != exp.as_slice() || p.coeff_count() != vals.len() || p.is_ntt_form() {
            return Err(CaseOut::fail(
                format!("polynomial:encode:{class}:wrong"),
                format!("{:?} N={n} t={t}: encode_polynomial({}) = each coefficient mod t = {}", e.sch, fv(vals), fv(&exp)),
                format!("{} coeff_count={} ({})", fv(p.data()), p.coeff_count(), first_diff(&exp, p.data())),
            ));
        }
        let d = guard(|| {
            let mut d = vec![5u64; (vals.len() + 3) % (n + 2)];
            e.be.decode_polynomial(&p, &mut d);
            (d, e.be.decode_polynomial_new(&p))
        })
        .map_err(|m| CaseOut::fail(format!("polynomial:decode:{class}:panic:{}", panic_class(&m)), format!("{:?} N={n} t={t}: decode_polynomial of a {}-coefficient plaintext returns", e.sch, vals.len()), m))?;
        if d.0 != exp || d.1 != exp {
            return Err(CaseOut::fail(
                format!("polynomial:decode:{class}:wrong"),
                format!("{:?} N={n} t={t}: decode_polynomial(encode_polynomial({})) = {}", e.sch, fv(vals), fv(&exp)),
                format!("{} / {}", fv(&d.0), fv(&d.1)),
            ));
        }
        *steps += 3;
        Ok(())
    };
    for (li, &len) in lengths.iter().enumerate() {
        if !c.mine(li) {
            continue;
        }
        let base: Vec<u64> = gen_fill(seed, n, t, 8, len);
        tri!(one(&base, "generic", &mut steps));
        let positions: Vec<usize> = if n <= 1024 {
            (0..len).collect()
        } else {
            let mut p: Vec<usize> = [0, 1, len / 2, len.saturating_sub(2), len.saturating_sub(1)].into_iter().filter(|&x| x < len).collect();
            p.sort();
            p.dedup();
            p
        };
        for &pos in &positions {
            for &x in &alphabet {
                let mut v = base.clone();
                v[pos] = x;
                tri!(one(&v, "alphabet", &mut steps));
            }
        }
        for &x in &alphabet {
            tri!(one(&vec![x; len], "constant", &mut steps));
        }
        // with batching: the short plaintext decodes (slot-wise) to the evaluations of the reduced polynomial
        if e.batching && n <= 1024 && len > 0 {
            let red: Vec<u64> = base.iter().map(|&x| x % t).collect();
            let p = tri!(guard(|| e.be.encode_polynomial_new(&base)).map_err(|m| CaseOut::fail(format!("polynomial:encode:generic:panic:{}", panic_class(&m)), "returns", m)));
            let exp: Vec<u64> = e.roots.iter().map(|&r| peval(&red, r, t)).collect();
            tri!(decode_checked(&e, sec, "slots-of-short-polynomial", &p, &exp, &format!("encode_polynomial({})", fv(&base))));
            steps += 1;
        }
    }
    // too long
    let mut refusals = 0u64;
    for len in if c.first() { vec![n + 1, 2 * n] } else { vec![] } {
        match guard(|| e.be.encode_polynomial_new(&vec![1u64; len])) {
            Err(_) => refusals += 1,
            Ok(p) => fail!(
                "polynomial:encode:too-long:accepted",
                format!("{:?} N={n} t={t}: encode_polynomial of {len} coefficients is refused", e.sch),
                format!("returned a plaintext with {} coefficients", p.coeff_count())
            ),
        }
        steps += 1;
    }
    // without batching the slot API refuses
    if !e.batching && c.first() {
        if let Ok(p) = guard(|| e.be.encode_new(&[1, 2])) {
            fail!("polynomial:no-batching:encode-accepted", format!("{:?} N={n} t={t}: encode refuses (t is not a prime = 1 mod 2N)", e.sch), format!("{}", fv(p.data())));
        }
        if let Ok(d) = guard(|| e.be.decode_new(&mk_plain(&[1]))) {
            fail!("polynomial:no-batching:decode-accepted", format!("{:?} N={n} t={t}: decode refuses (t is not a prime = 1 mod 2N)", e.sch), fv(&d));
        }
        refusals += 2;
        steps += 2;
    }
    CaseOut::pass(steps > 0, outcome(&e, sec, refusals), steps)
}

// ---------------------------------------------------------------------------------------------
// section `big_ring`: sums and products at production degrees; the product modulo (X^N+1, t) is computed with the O(N log N)
// reference transform (refmodel::ntt, validated against the by-definition transform in the self-test and, here, against the
// naive product on the first pair)
// ---------------------------------------------------------------------------------------------

fn pointwise(a: &[u64], b: &[u64], t: u64) -> Vec<u64> {
    a.iter().zip(b).map(|(&x, &y)| mul_mod(x, y, t)).collect()
}

fn check_big_ring(c: &Case, seed: u64, sec: &str) -> CaseOut {
    let e = tri!(setup(c, seed, sec));
    if !e.batching {
        return CaseOut::skip("no batching for this plain modulus");
    }
    let (n, t, psi) = (e.n, e.t, e.psi);
    let mut steps = 0u64;
    // encode(u) (+|*) encode(w) decodes to the slot-wise result; fu, fw = reference transforms of the two encodings
    let pair = |class: &str, u: &[u64], w: &[u64], pu: &Plaintext, pw: &Plaintext, fu: &[u64], fw: &[u64], steps: &mut u64| -> Result<(), CaseOut> {
        let (up, wp) = (pad(u, n), pad(w, n));
        let sum = padd(pu.data(), pw.data(), t);
        decode_checked(&e, sec, &format!("sum:{class}"), &mk_plain(&sum), &slotwise(&up, &wp, t, false), &format!("encode({}) + encode({})", fv(u), fv(w)))?;
        let prod = fast_intt(&pointwise(fu, fw, t), psi, t);
        decode_checked(&e, sec, &format!("product:{class}"), &mk_plain(&prod), &slotwise(&up, &wp, t, true), &format!("encode({}) * encode({}) mod (X^N+1, t)", fv(u), fv(w)))?;
        *steps += 2;
        Ok(())
    };
    let vs = named_vectors(seed, n, t, true);
    let mut encs = vec![];
    let mut fts = vec![];
    for (_, v) in &vs {
        let p = tri!(encode_checked(&e, sec, "generic", v));
        let f = fast_ntt(p.data(), psi, t);
        tri!(slots_of_transform_checked(&e, sec, "generic", &p, &f, v, false));
        fts.push(f);
        encs.push(p);
    }
    // the reference product itself: fast == naive on (generic, max) (quadratic: at most N = 2048 unless the case asks for everything)
    if c.first() && (n <= 2048 || c.full) {
        let fast = fast_intt(&pointwise(&fts[0], &fts[1], t), psi, t);
        let naive = pmul(encs[0].data(), encs[1].data(), t);
        if fast != naive {
            fail!(format!("{sec}:reference:fast-product-differs-from-naive"), format!("N={n} t={t}: {}", fv(&naive)), format!("{} ({})", fv(&fast), first_diff(&naive, &fast)));
        }
    }
    let mut idx = 0usize;
    for i in 0..vs.len() {
        for j in 0..vs.len() {
            idx += 1;
            if !c.mine(idx - 1) {
                continue;
            }
            tri!(pair("generic", &vs[i].1, &vs[j].1, &encs[i], &encs[j], &fts[i], &fts[j], &mut steps));
        }
    }
    // unit slots: generic x e_j, e_j x e_j, e_j x e_j' (j' the next slot of the list): j over the boundary slots or over all slots
    let slots: Vec<usize> = if c.full { (0..n).collect() } else { boundary(n) };
    let unit = |j: usize| -> (Vec<u64>, u64) {
        let val = if j % 2 == 0 { 1 } else { t - 1 };
        let mut u = vec![0u64; if j % 4 < 2 { j + 1 } else { n }];
        u[j] = val;
        (u, val)
    };
    for (bi, &j) in slots.iter().enumerate() {
        idx += 1;
        if !c.mine(idx - 1) {
            continue;
        }
        let (u, _) = unit(j);
        let pu = tri!(encode_checked(&e, sec, "unit", &u));
        let fu = fast_ntt(pu.data(), psi, t);
        tri!(slots_of_transform_checked(&e, sec, "unit", &pu, &fu, &u, false));
        tri!(pair("generic-unit", &vs[0].1, &u, &encs[0], &pu, &fts[0], &fu, &mut steps));
        if !c.full || bi % 64 == 0 {
            let (w, _) = unit(slots[(bi + 1) % slots.len()]);
            let pw = tri!(encode_checked(&e, sec, "unit", &w));
            let fw = fast_ntt(pw.data(), psi, t);
            tri!(slots_of_transform_checked(&e, sec, "unit", &pw, &fw, &w, false));
            tri!(pair("unit", &u, &u, &pu, &pu, &fu, &fu, &mut steps));
            tri!(pair("unit", &u, &w, &pu, &pw, &fu, &fw, &mut steps));
        }
    }
    CaseOut::pass(steps > 0, outcome(&e, sec, c.full as u64), steps)
}

// ---------------------------------------------------------------------------------------------
// section `big_polynomial`: coefficient encoding of EVERY length 0..N at production degrees
// ---------------------------------------------------------------------------------------------

fn check_big_polynomial(c: &Case, seed: u64, sec: &str) -> CaseOut {
    let e = tri!(setup(c, seed, sec));
    let (n, t) = (e.n, e.t);
    let mut steps = 0u64;
    let alphabet = [0u64, 1, t - 1, t, t + 1, u64::MAX];
    // unreduced 64-bit values (every third one below t)
    let raw: Vec<u64> = (0..n).map(|i| { let x = h64(&(seed, "c11-raw", n, t, i)); if i % 3 == 0 { x % t } else { x } }).collect();
    for len in c.chunk(n + 1) {
        // the generic values with the alphabet (cycling with the length) at the first, middle and last position
        let mut v = raw[..len].to_vec();
        for (pi, pos) in [0, len / 2, len.saturating_sub(1)].into_iter().enumerate() {
            if pos < len {
                v[pos] = alphabet[(len + 2 * pi) % alphabet.len()];
            }
        }
        let exp: Vec<u64> = v.iter().map(|&x| x % t).collect();
        // new form and destination form on a used plaintext of another length
        let mut dirty = mk_plain(&vec![t - 1; if len % 2 == 0 { n } else { (len * 7 + 1) % n }]);
        let p = match guard(|| { e.be.encode_polynomial(&v, &mut dirty); e.be.encode_polynomial_new(&v) }) {
            Ok(p) => p,
            Err(m) => fail!(format!("{sec}:encode:panic:{}", panic_class(&m)), format!("{:?} N={n} t={t}: encode_polynomial({}) returns", e.sch, fv(&v)), m),
        };
        for (form, q) in [("new", &p), ("into", &dirty)] {
            if q.data().as_slice() != exp.as_slice() || q.coeff_count() != len || q.is_ntt_form() {
                fail!(
                    format!("{sec}:encode:wrong"),
                    format!("{:?} N={n} t={t}: encode_polynomial({}) [{form}] = each coefficient mod t = {}", e.sch, fv(&v), fv(&exp)),
                    format!("{} coeff_count={} ({})", fv(q.data()), q.coeff_count(), first_diff(&exp, q.data()))
                );
            }
        }
        let d = match guard(|| {
            let mut d = vec![5u64; (len * 5 + 3) % (2 * n + 1)];
            e.be.decode_polynomial(&p, &mut d);
            (d, e.be.decode_polynomial_new(&p))
        }) {
            Ok(d) => d,
            Err(m) => fail!(format!("{sec}:decode:panic:{}", panic_class(&m)), format!("{:?} N={n} t={t}: decode_polynomial of a {len}-coefficient plaintext returns", e.sch), m),
        };
        if d.0 != exp || d.1 != exp {
            fail!(
                format!("{sec}:decode:wrong"),
                format!("{:?} N={n} t={t}: decode_polynomial(encode_polynomial({})) = {}", e.sch, fv(&v), fv(&exp)),
                format!("{} ({}) / {} ({})", fv(&d.0), first_diff(&exp, &d.0), fv(&d.1), first_diff(&exp, &d.1))
            );
        }
        steps += 4;
    }
    // too long
    let mut refusals = 0u64;
    for len in if c.first() { vec![n + 1, 2 * n] } else { vec![] } {
        match guard(|| e.be.encode_polynomial_new(&vec![1u64; len])) {
            Err(_) => refusals += 1,
            Ok(p) => fail!(
                format!("{sec}:encode:too-long:accepted"),
                format!("{:?} N={n} t={t}: encode_polynomial of {len} coefficients is refused", e.sch),
                format!("returned a plaintext with {} coefficients", p.coeff_count())
            ),
        }
        steps += 1;
    }
    CaseOut::pass(steps > 0, outcome(&e, sec, refusals), steps)
}

// ---------------------------------------------------------------------------------------------
// section `primes`: the whole alphabet of the other sections at tiny N below chains of 1..18 coefficient primes
// ---------------------------------------------------------------------------------------------

fn check_primes(c: &Case, seed: u64) -> CaseOut {
    let sec = "primes";
    let mut steps = 0u64;
    let mut oc = vec![];
    let runs: Vec<Box<dyn Fn() -> CaseOut>> = vec![
        Box::new(|| check_slots_in(c, seed, sec, false)),
        Box::new(|| check_slots_in(c, seed, sec, true)),
        Box::new(|| check_lengths_in(c, seed, sec, false)),
        Box::new(|| check_lengths_in(c, seed, sec, true)),
        Box::new(|| check_galois_in(c, seed, sec, false)),
        Box::new(|| check_galois_in(c, seed, sec, true)),
        Box::new(|| check_big_ring(c, seed, sec)),
        Box::new(|| check_big_polynomial(c, seed, sec)),
    ];
    for r in runs {
        let o = r();
        match o.verdict {
            Verdict::Pass => {
                steps += o.steps;
                oc.push(o.outcome);
            }
            _ => return o,
        }
    }
    // every level of the chain names the same Galois elements
    let ctx = c.spec.context();
    let (n, mut levels) = (c.spec.n, 0u64);
    let key = ctx.key_context_data().unwrap();
    let mut cur = ctx.first_context_data();
    while let Some(cd) = cur {
        for s in -((n / 2) as isize - 1)..(n / 2) as isize {
            let (a, b) = (guard(|| key.verif_galois_tool().get_elt_from_step(s)), guard(|| cd.verif_galois_tool().get_elt_from_step(s)));
            if a.is_err() || a != b {
                fail!("primes:elt_from_step:levels-differ", format!("N={n} step {s}: the element of the key level, {a:?}"), format!("{b:?} at chain index {}", cd.chain_index()));
            }
            steps += 1;
        }
        levels += 1;
        cur = cd.next_context_data();
    }
    CaseOut::pass(true, h64(&(oc, levels)), steps)
}

// ---------------------------------------------------------------------------------------------

pub fn sections(cfg: &RunCfg) -> Vec<Box<dyn AnySection>> {
    let seed = cfg.seed;
    let thorough = cfg.thorough();
    let kmax: u32 = if thorough { 13 } else { 8 };
    let dl = Duration::from_secs(if thorough { 420 } else { 30 });
    let bound_nt = format!(
        "scheme in {{BFV,BGV}} x N = 2^k, k = 1..{kmax} x t in {{smallest prime = 1 mod 2N, largest 20-, 40-bit and third largest 60-bit prime = 1 mod 2N}}"
    );
    let mut v: Vec<Box<dyn AnySection>> = vec![];

    v.push(
        E1::new(
            "slots",
            &format!("{bound_nt}: all N unit vectors x {{1,t-1}} (closed form), all N monomials x {{1,t-1}}, 9 generic/extreme vectors (3 beyond N=1024) evaluated naively at psi^(+-3^i)"),
            specs(1, kmax, &[], parts_alphabet).into_iter(),
            move |c: &Case| check_slots(c, seed),
        )
        .deadline(dl),
    );
    v.push(
        E1::new(
            "lengths",
            &format!("{bound_nt}: every input length 0..N of a generic vector (new and destination forms), lengths N+1 and 2N refused"),
            specs(1, kmax, &[], parts_alphabet).into_iter(),
            move |c: &Case| check_lengths(c, seed),
        )
        .deadline(dl),
    );

    // exhaustive: all of Z_t^N
    let mut ex: Vec<Case> = vec![];
    for (n, t) in [(2usize, 5u64), (2, 13), (4, 17)] {
        let (q, _) = q_and_t60(n);
        for scheme in [Scheme::BFV, Scheme::BGV] {
            let spec = ParamSpec::new(scheme, n, q.clone(), t);
            if n == 4 {
                for a in 0..t {
                    for b in 0..t {
                        ex.push(Case { spec: spec.clone(), prefix: vec![a, b], part: 0, parts: 1, full: false });
                    }
                }
            } else {
                ex.push(Case { spec, prefix: vec![], part: 0, parts: 1, full: false });
            }
        }
    }
    v.push(
        E1::new(
            "exhaustive",
            "scheme in {BFV,BGV} x ALL t^N slot vectors for (N,t) in {(2,5),(2,13),(4,17)}: naive evaluation, round trip, injectivity; sum and product for all ordered pairs ((2,5),(2,13)) resp. every vector x 8 partners ((4,17))",
            ex.into_iter(),
            move |c: &Case| check_exhaustive(c, seed),
        )
        .deadline(dl),
    );

    let unit_nmax = if thorough { 64 } else { 32 };
    v.push(
        E1::new(
            "ring",
            &format!("{bound_nt}: sum and naive negacyclic product of encodings decode slot-wise: all ordered pairs of unit vectors x {{1,t-1}}^2 and generic x unit (N <= {unit_nmax}); all ordered pairs of 9 generic/extreme vectors (N <= 256), upper triangle of 3 beyond"),
            specs(1, kmax, &[], parts_ring).into_iter(),
            move |c: &Case| check_ring(c, seed, unit_nmax),
        )
        .deadline(dl),
    );
    v.push(
        E1::new(
            "galois",
            &format!("{bound_nt}: every step -(N/2-1)..N/2-1 via get_elt_from_step, column swap 2N-1, every odd element 1..2N-1 (= +-3^s), steps +-N/2 and N/2+1, get_elts_all; 3 inputs (5 up to N=64), three call forms; polynomial compared with naive X -> X^g"),
            specs(1, kmax, &[], parts_alphabet).into_iter(),
            move |c: &Case| check_galois(c, seed),
        )
        .deadline(dl),
    );
    v.push(
        E1::new(
            "polynomial",
            &format!("{bound_nt} + t in {{7, 16, 2^59}} (no batching): encode_polynomial / decode_polynomial, values {{0,1,t-1,t,t+1,2^64-1}} at every position (5 positions beyond N=1024) of every length 0..N (7 lengths beyond N=64), constant vectors, lengths N+1 and 2N refused"),
            specs(1, kmax, &[7, 16, 1 << 59], parts_polynomial).into_iter(),
            move |c: &Case| check_polynomial(c, seed),
        )
        .deadline(dl),
    );
    // ---- production sizes: N = 128..8192 in BOTH tiers, structured O(N) families per parameter set ----
    let four = thorough;
    let bound_big = format!(
        "N = 2^k, k = 7..13 x (scheme, t) in {{(BFV, smallest prime = 1 mod 2N), (BGV, third largest 60-bit prime = 1 mod 2N){}}}",
        if four { ", (BGV, smallest), (BFV, 60-bit)" } else { "" }
    );
    // quick tier: big_slots and big_galois run one of the two combinations at N = 4096 and the other one at N = 8192
    let thin_slots = if four { "" } else { " [N = 4096: (BFV, smallest) only, N = 8192: (BGV, 60-bit) only]" };
    let thin_galois = if four { "" } else { " [N = 4096: (BGV, 60-bit) only, N = 8192: (BFV, smallest) only]" };
    v.push(
        E1::new(
            "big_slots",
            &format!("{bound_big}{thin_slots}: every unit slot j (value 1, N inputs / t-1, j+1 inputs, alternating) against the closed form and decoded; the generic polynomial of EVERY stored length k+1 decoded against sum_k g_k r_i^k (running sum), the monomials X^k (coefficient 1 / t-1, k+1 coefficients stored) for k at the boundary indices; 9 generic/extreme vectors evaluated at all N slot roots with the fast reference transform and at the boundary slots (0, 1, 2^k-1, 2^k, 2^k+1, N/2-1..N/2+1, N-2, N-1) by Horner's rule; reverse_bits"),
            big_specs(7, 13, four, &[], parts_big, 0, 2).into_iter(),
            move |c: &Case| check_slots_in(c, seed, "big_slots", true),
        )
        .deadline(dl),
    );
    v.push(
        E1::new(
            "big_lengths",
            &format!("{bound_big}: every input length 0..N of a generic non-zero vector: encode into a destination (fresh / used with N entries / used with another length, in turn) == running sum of closed-form unit encodings, decode of it into a destination (empty / N entries / another length) == the input zero-padded; lengths N+1 and 2N refused"),
            big_specs(7, 13, four, &[], parts_big, 0, 0).into_iter(),
            move |c: &Case| check_lengths_in(c, seed, "big_lengths", true),
        )
        .deadline(dl),
    );
    v.push(
        E1::new(
            "big_galois",
            &format!("{bound_big}{thin_galois}: every step s in -(N/2-1)..N/2-1: get_elt_from_step(s) == 3^(s mod N/2) mod 2N (2N-1 for s = 0) at the key and the first level, get_elts_from_steps, apply_galois_plain of that element on a unit-slot plaintext (1 in row 0 column 1 for even s, t-1 in row 1 column N/2-2 for odd s) == naive X -> X^g, decoded == both rows rotated left by s; every odd element +-3^s on the all-distinct plaintext == naive, decoded == rotation by s (and row exchange for -3^s); column swap 2N-1; steps +-N/2, N/2+1; get_elts_all"),
            big_specs(7, 13, four, &[], parts_big, 0, 1).into_iter(),
            move |c: &Case| check_galois_in(c, seed, "big_galois", true),
        )
        .deadline(dl),
    );
    let ring_full = if thorough { 8192 } else { 256 };
    v.push(
        E1::new(
            "big_ring",
            &format!("{bound_big}: sum and product modulo (X^N+1, t) (fast reference transform; == naive product on one pair for N <= 2048 and wherever all slots are used) of encodings decode slot-wise: all 81 ordered pairs of 9 generic/extreme vectors; generic x unit slot j (value 1 / t-1, j+1 / N inputs), e_j x e_j, e_j x e_j' for j over ALL slots (N <= {ring_full}; the unit x unit pairs at every 64th slot) resp. the boundary slots 0, 1, 2^k-1, 2^k, 2^k+1, N/2-1..N/2+1, N-2, N-1"),
            big_specs(7, 13, four, &[], parts_big_ring, ring_full, 0).into_iter(),
            move |c: &Case| check_big_ring(c, seed, "big_ring"),
        )
        .deadline(dl),
    );
    let poly_extra: &[u64] = if thorough { &[7, 16, 1 << 59, 65537 * 65537] } else { &[7, 1 << 59] };
    v.push(
        E1::new(
            "big_polynomial",
            &format!("{bound_big} + t in {:?} (no batching, scheme alternating): encode_polynomial (new form and into a used plaintext of another length) / decode_polynomial (both forms, used destination) of EVERY length 0..N of unreduced 64-bit values with {{0,1,t-1,t,t+1,2^64-1}} (cycling with the length) at the first, middle and last position; lengths N+1 and 2N refused", poly_extra),
            big_specs(7, 13, four, poly_extra, parts_big, 0, 0).into_iter(),
            move |c: &Case| check_big_polynomial(c, seed, "big_polynomial"),
        )
        .deadline(dl),
    );
    v.push(
        E1::new(
            "primes",
            "N in {8, 16} x chains of 1..18 sixty-bit coefficient primes x (BFV, smallest batching t), (BGV, 60-bit t): the complete alphabets of slots, lengths, galois (both variants), big_ring (all slots), big_polynomial; get_elt_from_step of every step at every level of the chain == key level",
            prime_chain_specs().into_iter(),
            move |c: &Case| check_primes(c, seed),
        )
        .deadline(dl),
    );
    if std::env::var("VERIF_C11_SHORT_PLAIN").map(|x| x != "0").unwrap_or(true) {
        v.push(
            E1::new(
                "galois_short",
                &format!("OPT-IN, outside the statement: scheme x N = 2^k, k = 1..{} x 4 t: apply_galois_plain of plaintexts with 0..N stored coefficients (6 lengths beyond N=16) x every odd element", kmax.min(8)),
                specs(1, kmax.min(8), &[], |_| 1).into_iter(),
                move |c: &Case| check_galois_short(c, seed),
            )
            .deadline(dl),
        );
    }
    v
}
