//! C03 — CKKS evaluation is correct within worst-case error; scale bookkeeping is exact
//! (engine E2c: explicit-state exploration of CKKS operation programs, plus a direct enumeration
//! of scales around the bounds the evaluator enforces).
use crate::e2c::*;
use crate::engine::*;
use crate::he::*;
use crate::refmodel::bigu::*;
use heathcliff::*;
use num_complex::Complex;
use serde::{Deserialize, Serialize};
use std::time::Duration;

pub fn describe(rep: &Report) {
    rep.set_rule(
        "E2c explicit-state exploration on the real CKKSEncoder/Encryptor/Evaluator: states = real ciphertext + shadow (complex slot vector, expected scale, \
         a-priori slot-domain error bound); R0 = encryptions of slot vectors {0, (1,..), (-1.5,2), (i,-i), (2^10,2^-3), mixed complex} (quick tier: (-1.5,2), (2^10,2^-3) and the mixed vector; 0 and (1,..) at the largest scale only) \
         at scales 2^10, 2^20, 2^30 (thorough: + 2^40) and 2^(bits(Q_0)-2); phase A = every program of depth <= 2 over {negate, square, relinearize (standard / all-power keys), \
         rescale_to_next, mod_switch_to_next, to/from NTT, add, sub, multiply, add/sub/multiply_plain x 5 plain values x {scale of the ciphertext, 2^10, 2^20, 2^30} x \
         {level of the ciphertext, another level}, add_many}, deduplicated by (level, size, representation, scale bits, shadow); phase B = closure of the abstract key \
         (level, size, representation, floor(max(log2 scale,-40) / w)), w = 20 bits (quick) / 10 bits (thorough), to fixpoint, every (operation, abstract operand tuple) \
         executed on witnesses. Judged per transition: acceptance of well-typed operand tuples, REQUIRED refusal of ill-typed ones (levels differ, scales differ by more \
         than a relative 2^-52, product / switched / rescaled scale does not fit the level, non-NTT operand, size a+b-1 > 16, missing key power), scale of the result \
         bit-identical to the IEEE expression (product; quotient by the dropped prime as f64; unchanged), size / level / representation / correction factor, \
         is_valid_for, the three API forms byte-identical with untouched operands, and |decode(decrypt(result)) - shadow| <= a-priori bound whenever \
         scale*(|shadow|+bound) < Q/2. Noise families: Zero (symmetric encryption with zero error and uniform c1, noiseless keys: the bound collapses to rounding terms, \
         so a relative deviation of 2^-20 is far outside it) and Real. Section scale_bounds: single operations on ciphertexts whose scale field is set to m*2^e around \
         every threshold (total modulus bits of the level and of the next level, one-ulp neighbourhoods for the closeness test, scales below 1, underflow). \
         distinct_nontrivial = distinct concrete states + abstract states + scale_bounds cases.",
    );
    rep.assume("slot-domain error calculus of e2c.rs (upper bounds: fresh 21(2N+1)+(1+N)/2+1 coefficient units, key switching k*N*21*q_max/P+(1+N)/2+1 per step, rescale N*sum_{i<size}N^i/(2s'), multiplication M1e2+M2e1+e1e2)");
    rep.assume("entropy scripted by hook H1, noise by hook H2; one secret key (real ternary) per parameter set and family");
    rep.assume("Decryptor::decrypt and CKKSEncoder::{encode,decode} are the observation path (their own correctness is C01/C10's subject); the tolerance includes the decoder's double-precision conversion error");
    rep.assume("operand pairs whose scales differ by one unit in the last place, and plaintext operands encoded for another level than the ciphertext, are outside the statement: either behaviour is admitted, a computed result is still checked");
}

// ---------------------------------------------------------------------------------------------
// parameter sets
// ---------------------------------------------------------------------------------------------

fn chains(cfg: &RunCfg) -> Vec<(&'static str, Vec<usize>)> {
    vec![
        ("4x30", vec![30, 30, 30, 30]),
        ("40_30_30_40", vec![40, 30, 30, 40]),
        ("60_20_59", vec![60, 20, 59]),
        if cfg.thorough() { ("6x40", vec![40; 6]) } else { ("5x40", vec![40; 5]) },
        // two primes: a single data level (nothing to switch to), key switching with the special prime only
        ("50_40", vec![50, 40]),
    ]
}

fn e2c_sections(cfg: &RunCfg) -> Vec<Box<dyn AnySection>> {
    let th = cfg.thorough();
    let mut v: Vec<Box<dyn AnySection>> = vec![];
    let mut plan: Vec<(String, ParamSpec, Noise)> = vec![];
    for (i, (name, bits)) in chains(cfg).into_iter().enumerate() {
        for (j, n) in [4usize, 8].into_iter().enumerate() {
            for fam in [Noise::Zero, Noise::Real] {
                // quick tier: each chain with (N=4, one family) and (N=8, the other family)
                let take = th || ((i + j) % 2 == 0) == (fam == Noise::Zero);
                if take {
                    let spec = ParamSpec::new(Scheme::CKKS, n, chain(n, &bits), 0);
                    plan.push((format!("ckks_{}_n{}_{}", name, n, if fam == Noise::Zero { "zero" } else { "real" }), spec, fam));
                }
            }
        }
    }
    // size dimensions (seeded round 3: defects gated on >= 8 / 9 / 16 primes at the level or on N >= 128 / 512 / 1024):
    // long chains at a tiny degree pass through every number of primes in the abstract closure; production degrees at depth 1
    let mut big: Vec<(String, usize, Vec<usize>, Noise)> = vec![("ckks_10x40_n4_zero".into(), 4, vec![40; 10], Noise::Zero), ("ckks_4x40_n1024_real".into(), 1024, vec![40; 4], Noise::Real)];
    if th {
        big.push(("ckks_18x40_n4_real".into(), 4, vec![40; 18], Noise::Real));
        big.push(("ckks_4x40_n1024_zero".into(), 1024, vec![40; 4], Noise::Zero));
        // (a 9-prime chain at N = 4096 keeps ~6000 abstract witnesses of up to 4.7 MB each: 24 GB. Many primes at large N are
        // C01 / C04 / C05 / C10's sections; here the long chains stay at N = 4 and the large degrees at 3..4 primes.)
        big.push(("ckks_3x40_n4096_zero".into(), 4096, vec![40, 40, 50], Noise::Zero));
        big.push(("ckks_3x50_n8192_real".into(), 8192, vec![50, 50, 60], Noise::Real));
    }
    let nbig = big.len();
    for (name, n, bits, fam) in big {
        plan.push((name, ParamSpec::new(Scheme::CKKS, n, chain(n, &bits), 0), fam));
    }
    let count = plan.len();
    for (index, (name, spec, fam)) in plan.into_iter().enumerate() {
        let is_big = index >= count - nbig;
        v.push(Box::new(E2cSection {
            name,
            spec,
            fam,
            oracles: Oracles { forms: true, value: true },
            judged: vec!["accept", "refusal", "scale", "meta", "valid", "value", "forms"],
            seed: cfg.seed,
            msgs: if th && !is_big { vec![0, 1, 2, 3, 4, 5] } else { vec![2, 4, 5] },
            lgs: if th && !is_big { vec![10, 20, 30, 40] } else if is_big { vec![20, 30] } else { vec![10, 20, 30] },
            big_scale: !is_big,
            depth: if is_big { 1 } else { 2 },
            abstract_closure: true,
            sclass_width: if th && !is_big { 10.0 } else { 20.0 },
            index,
            count,
        }));
    }
    v
}

// ---------------------------------------------------------------------------------------------
// scale_bounds: single operations with the scale field set around every threshold
// ---------------------------------------------------------------------------------------------

#[derive(Serialize, Deserialize, Clone, Copy, Debug, PartialEq, Eq, Hash)]
pub enum BOp {
    Mul,
    Square,
    MulPlain,
    ModSwitch,
    Rescale,
    Add,
    Sub,
    AddPlain,
    SubPlain,
}

#[derive(Serialize, Deserialize, Clone, Debug, Hash)]
pub struct BCase {
    pub spec: ParamSpec,
    pub level: usize,
    pub op: BOp,
    /// scale of the (first) ciphertext operand, f64 bits
    pub x1: u64,
    /// scale of the second operand (ciphertext or plaintext), f64 bits; unused for unary operations
    pub x2: u64,
}

/// first prime = 1 (mod 2n) at or above `from`
fn prime_from(n: usize, from: u64) -> u64 {
    let m = 2 * n as u64;
    let mut p = from - from % m + 1;
    if p < from {
        p += m;
    }
    while !is_prime_u64(p) {
        p += m;
    }
    p
}

fn pw(e: i32) -> f64 {
    2f64.powi(e)
}

fn bcases(cfg: &RunCfg) -> Vec<BCase> {
    let n = 4usize;
    let mut specs: Vec<ParamSpec> = chains(cfg).into_iter().map(|(_, bits)| ParamSpec::new(Scheme::CKKS, n, chain(n, &bits), 0)).collect();
    // a chain whose dropped prime sits low in its bit range: between q*2^bits(Q') and 2^bits(Q) there is
    // most of a binade of scales that pass the bound on the level but whose rescaled value does not on the next
    let top = chain(n, &[30, 30, 30]);
    specs.push(ParamSpec::new(Scheme::CKKS, n, vec![top[0], top[1], prime_from(n, 5 << 27), top[2]], 0));
    specs.push(ParamSpec::new(Scheme::CKKS, n, vec![chain(n, &[40])[0], prime_from(n, 5 << 17), prime_from(n, 9 << 26), chain(n, &[35])[0]], 0));
    let mants = [1.0f64, 1.5, 2.0 - f64::EPSILON];
    let mut out = vec![];
    for spec in specs {
        let nlev = spec.q.len() - 1;
        let bits: Vec<i32> = (0..nlev).map(|l| BigU::product(&spec.q[..nlev - l]).bits() as i32).collect();
        for level in 0..nlev {
            let b = bits[level];
            let mut push = |op: BOp, x1: f64, x2: f64| {
                if scale_fits(x1, b as usize) {
                    out.push(BCase { spec: spec.clone(), level, op, x1: x1.to_bits(), x2: x2.to_bits() });
                }
            };
            // products around 2^b
            for e1 in [10, b / 2, b - 12] {
                for d in -3..=1 {
                    for m1 in mants {
                        for m2 in mants {
                            let (x1, x2) = (m1 * pw(e1), m2 * pw(b - e1 + d));
                            if scale_fits(x2, b as usize) {
                                push(BOp::Mul, x1, x2);
                                push(BOp::MulPlain, x1, x2);
                            }
                        }
                    }
                }
            }
            for e in [b / 2 - 1, b / 2, (b + 1) / 2, b / 2 + 1] {
                for m in [1.0, 1.5, 2.0 - f64::EPSILON, std::f64::consts::SQRT_2, f64::from_bits(std::f64::consts::SQRT_2.to_bits() - 1), f64::from_bits(std::f64::consts::SQRT_2.to_bits() + 1)] {
                    push(BOp::Square, m * pw(e), 0.0);
                }
            }
            // switching down: thresholds of the next level
            if level + 1 < nlev {
                let bn = bits[level + 1];
                let q = spec.q[nlev - level - 1];
                let bq = 64 - q.leading_zeros() as i32;
                for e in bn - 2..=bn + 1 {
                    for m in mants {
                        push(BOp::ModSwitch, m * pw(e), 0.0);
                    }
                }
                for e in [10, b - 3, b - 2, b - 1, bn + bq - 2, bn + bq - 1, bn + bq] {
                    for m in [1.0, 1.25, 1.5, 1.75, 2.0 - f64::EPSILON] {
                        push(BOp::Rescale, m * pw(e), 0.0);
                    }
                }
                // tiny scales: the quotient leaves the normal range / underflows to zero
                for x in [pw(-1000), f64::MIN_POSITIVE, pw(-1060)] {
                    push(BOp::Rescale, x, 0.0);
                    push(BOp::ModSwitch, x, 0.0);
                }
            } else {
                push(BOp::ModSwitch, pw(10), 0.0);
                push(BOp::Rescale, pw(10), 0.0);
            }
            // products that underflow
            for (x1, x2) in [(pw(-600), pw(-600)), (pw(-1000), pw(-60)), (pw(-500), pw(-500))] {
                push(BOp::Mul, x1, x2);
                push(BOp::MulPlain, x1, x2);
                push(BOp::Square, x1, 0.0);
            }
            // closeness of scales
            for x1 in [pw(20), 1.5 * pw(30), pw(b - 2), f64::from_bits(pw(20).to_bits() - 1), 1.5, pw(-1), 1.25 * pw(-20), pw(-60)] {
                for op in [BOp::Add, BOp::Sub, BOp::AddPlain, BOp::SubPlain] {
                    for k in [0u64, 1, 2, 3, 1 << 20, 1 << 40] {
                        push(op, x1, f64::from_bits(x1.to_bits() + k));
                    }
                    push(op, x1, f64::from_bits(x1.to_bits() - 1));
                    push(op, x1, f64::from_bits(x1.to_bits() - 2));
                    push(op, x1, 2.0 * x1);
                    push(op, x1, 0.5 * x1);
                    push(op, x1, x1 * pw(-30));
                }
            }
        }
    }
    out
}

fn bcheck(c: &BCase, seed: u64) -> CaseOut {
    let spec = &c.spec;
    env_real(seed, h64(&("c03-bounds", spec)));
    let kit = match guard(|| Kit::new(spec)) {
        Ok(Ok(k)) => k,
        _ => return CaseOut::skip("parameter set not accepted"),
    };
    let levels = kit.levels();
    if c.level >= levels.len() {
        return CaseOut::skip("no such level");
    }
    let bits: Vec<usize> = levels.iter().map(|l| BigU::product(&kit.moduli_at(l)).bits()).collect();
    let (x1, x2) = (f64::from_bits(c.x1), f64::from_bits(c.x2));
    if !scale_fits(x1, bits[c.level]) {
        return CaseOut::skip("operand scale outside the bound of its own level");
    }
    let encoder = CKKSEncoder::new(kit.ctx.clone());
    let slots = spec.n / 2;
    let vals: Vec<Complex<f64>> = (0..slots).map(|i| Complex::new(1.0 + i as f64, 0.5)).collect();
    let ev = &kit.eval;
    // operands on the requested level (scale 2^20 fits every level of every chain used here)
    let built = guard(|| {
        let pt = encoder.encode_c64_array_new(&vals, None, pw(20));
        let mut a = kit.enc.encrypt_new(&pt);
        let mut b = kit.enc.encrypt_new(&pt);
        for _ in 0..c.level {
            ev.mod_switch_to_next_inplace(&mut a);
            ev.mod_switch_to_next_inplace(&mut b);
        }
        let p = encoder.encode_c64_array_new(&vals, Some(levels[c.level]), pw(20));
        (a, b, p)
    });
    let (mut a, mut b, mut p) = match built {
        Ok(t) => t,
        Err(e) => return CaseOut::fail(format!("bounds:setup:{}", panic_class(&e)), "operands at scale 2^20 on every level", e),
    };
    a.set_scale(x1);
    let has_next = c.level + 1 < levels.len();
    let qlast = *kit.moduli_at(&levels[c.level]).last().unwrap();
    // model: (must accept?, must refuse?, expected scale, expected level)
    let two = matches!(c.op, BOp::Mul | BOp::MulPlain | BOp::Add | BOp::Sub | BOp::AddPlain | BOp::SubPlain);
    if two {
        if !scale_fits(x2, bits[c.level]) {
            return CaseOut::skip("operand scale outside the bound of its own level");
        }
        b.set_scale(x2);
        p.set_scale(x2);
    }
    let (verdict, exp_scale, exp_level, why): (u8, f64, usize, &str) = match c.op {
        BOp::Mul | BOp::MulPlain => {
            let s = x1 * x2;
            if scale_fits(s, bits[c.level]) { (0, s, c.level, "") } else { (2, s, c.level, "product scale does not fit the level") }
        }
        BOp::Square => {
            let s = x1 * x1;
            if scale_fits(s, bits[c.level]) { (0, s, c.level, "") } else { (2, s, c.level, "squared scale does not fit the level") }
        }
        BOp::ModSwitch => {
            if !has_next {
                (2, x1, c.level, "last level")
            } else if scale_fits(x1, bits[c.level + 1]) {
                (0, x1, c.level + 1, "")
            } else {
                (2, x1, c.level + 1, "scale does not fit the next level")
            }
        }
        BOp::Rescale => {
            let s = x1 / qlast as f64;
            if !has_next {
                (2, s, c.level, "last level")
            } else if scale_fits(s, bits[c.level + 1]) {
                (0, s, c.level + 1, "")
            } else {
                (2, s, c.level + 1, "rescaled scale does not fit the next level")
            }
        }
        BOp::Add | BOp::Sub | BOp::AddPlain | BOp::SubPlain => match screl(x1, x2) {
            ScRel::Equal => (0, x1, c.level, ""),
            ScRel::Border => (1, x1, c.level, "scales one ulp apart"),
            ScRel::Differ => (2, x1, c.level, if differ_reason(x1, x2) == "scales-differ" { "scales differ" } else { "scales differ below 1" }),
        },
    };
    let res = guard(|| match c.op {
        BOp::Mul => ev.multiply_new(&a, &b),
        BOp::Square => ev.square_new(&a),
        BOp::MulPlain => ev.multiply_plain_new(&a, &p),
        BOp::ModSwitch => ev.mod_switch_to_next_new(&a),
        BOp::Rescale => ev.rescale_to_next_new(&a),
        BOp::Add => ev.add_new(&a, &b),
        BOp::Sub => ev.sub_new(&a, &b),
        BOp::AddPlain => ev.add_plain_new(&a, &p),
        BOp::SubPlain => ev.sub_plain_new(&a, &p),
    });
    let cls = |x: f64, b: usize| -> &'static str {
        let l = x.log2();
        if l >= b as f64 { "at-or-above" } else if l >= b as f64 - 1.0 { "top-bit" } else { "below" }
    };
    let shape = format!("{:?}", c.op);
    let detail = format!("level {} of {}, x1 = {:e} (2^{:.9}), x2 = {:e} (2^{:.9}), modulus bits per level {:?}, dropped prime {}", c.level, levels.len(), x1, x1.log2(), x2, x2.log2(), bits, qlast);
    match (verdict, res) {
        (2, Err(e)) => CaseOut::pass(true, h64(&(shape, c.level, "refused", panic_class(&e))), 1),
        (2, Ok(r)) => CaseOut::fail(
            format!("bounds:{shape}:{}:accepted", why.replace(' ', "-")),
            format!("refused: {why} (result scale would be {:e} = 2^{:.9}); {detail}", exp_scale, exp_scale.log2()),
            format!("computed: scale {:e} (2^{:.9}) on level {:?}", r.scale(), r.scale().log2(), levels.iter().position(|l| l == r.parms_id())),
        ),
        (1, Err(_)) => CaseOut::pass(false, h64(&(shape, "lenient-refused")), 1),
        (0, Err(e)) => CaseOut::fail(format!("bounds:{shape}:refused:{}", panic_class(&e)), format!("computed with scale {:e}; {detail}", exp_scale), e),
        (_, Ok(r)) => {
            let lv = levels.iter().position(|l| l == r.parms_id());
            if r.scale().to_bits() != exp_scale.to_bits() {
                return CaseOut::fail(format!("bounds:{shape}:scale"), format!("scale {:e} (bits {:016x}); {detail}", exp_scale, exp_scale.to_bits()), format!("scale {:e} (bits {:016x})", r.scale(), r.scale().to_bits()));
            }
            if lv != Some(exp_level) || r.correction_factor() != 1 || !r.is_ntt_form() {
                return CaseOut::fail(format!("bounds:{shape}:meta"), format!("level {exp_level}, NTT form, factor 1"), format!("level {:?} ntt={} cf={}", lv, r.is_ntt_form(), r.correction_factor()));
            }
            CaseOut::pass(true, h64(&(shape, c.level, "computed", cls(exp_scale, bits[exp_level]))), 1)
        }
        _ => unreachable!(),
    }
}

pub fn sections(cfg: &RunCfg) -> Vec<Box<dyn AnySection>> {
    let seed = cfg.seed;
    let cases = bcases(cfg);
    let mut v: Vec<Box<dyn AnySection>> = vec![E1::new(
        "scale_bounds",
        "N=4, chains {4x30, (40,30,30,40), (60,20,59), 5x40|6x40, (50,40), (30,30,low 30,30), (40,low 20,low 30,35)} x every level x {multiply, multiply_plain: x1*x2 with exponents summing to bits(Q)-3..+1 and mantissas {1, 1.5, 2-ulp}; square around 2^(bits/2); mod_switch / rescale around bits(Q_next) and bits(Q_next)+bits(q_last); add, sub, add_plain, sub_plain with scales 0,1,2,3,2^20,2^40 ulps apart, halved, doubled}",
        cases.into_iter(),
        move |c| bcheck(c, seed),
    )
    .deadline(Duration::from_secs(20))
    .share(0.3)];
    v.extend(e2c_sections(cfg));
    v
}
