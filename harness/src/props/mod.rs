//! One module per property: alphabets, bounds, oracles.
use crate::engine::{AnySection, Report, RunCfg};

pub mod c08;

pub fn ids() -> Vec<&'static str> {
    vec!["C08"]
}

pub fn level(id: &str) -> &'static str {
    match id {
        "C15" => "fault_enumeration",
        _ => "model_checking",
    }
}

pub fn sections(id: &str, cfg: &RunCfg) -> Option<Vec<Box<dyn AnySection>>> {
    Some(match id {
        "C08" => c08::sections(cfg),
        _ => return None,
    })
}

/// rule / assumptions text of the evidence
pub fn describe(id: &str, rep: &Report) {
    match id {
        "C08" => c08::describe(rep),
        _ => {}
    }
}
