//! One module per property: alphabets, bounds, oracles.
use crate::engine::{AnySection, Report, RunCfg};

pub mod c01;
pub mod c02;
pub mod c03;
pub mod c04;
pub mod c05;
pub mod c06;
pub mod c07;
pub mod c08;
pub mod c09;
pub mod c10;
pub mod c11;
pub mod c12;
pub mod c13;
pub mod c14;
pub mod c15;
pub mod c16;
pub mod c17;
pub mod c18;
pub mod c19;
pub mod c20;

pub fn ids() -> Vec<&'static str> {
    vec!["C01", "C02", "C03", "C04", "C05", "C06", "C07", "C08", "C09", "C10", "C11", "C12", "C13", "C14", "C15", "C16", "C17", "C18", "C19", "C20"]
}

pub fn level(id: &str) -> &'static str {
    match id {
        "C15" => "fault_enumeration",
        _ => "model_checking",
    }
}

pub fn sections(id: &str, cfg: &RunCfg) -> Option<Vec<Box<dyn AnySection>>> {
    Some(match id {
        "C01" => c01::sections(cfg),
        "C02" => c02::sections(cfg),
        "C03" => c03::sections(cfg),
        "C04" => c04::sections(cfg),
        "C05" => c05::sections(cfg),
        "C06" => c06::sections(cfg),
        "C07" => c07::sections(cfg),
        "C08" => c08::sections(cfg),
        "C09" => c09::sections(cfg),
        "C10" => c10::sections(cfg),
        "C11" => c11::sections(cfg),
        "C12" => c12::sections(cfg),
        "C13" => c13::sections(cfg),
        "C14" => c14::sections(cfg),
        "C15" => c15::sections(cfg),
        "C16" => c16::sections(cfg),
        "C17" => c17::sections(cfg),
        "C18" => c18::sections(cfg),
        "C19" => c19::sections(cfg),
        "C20" => c20::sections(cfg),
        _ => return None,
    })
}

/// rule / assumptions text of the evidence
pub fn describe(id: &str, rep: &Report) {
    match id {
        "C01" => c01::describe(rep),
        "C02" => c02::describe(rep),
        "C03" => c03::describe(rep),
        "C04" => c04::describe(rep),
        "C05" => c05::describe(rep),
        "C06" => c06::describe(rep),
        "C07" => c07::describe(rep),
        "C08" => c08::describe(rep),
        "C09" => c09::describe(rep),
        "C10" => c10::describe(rep),
        "C11" => c11::describe(rep),
        "C12" => c12::describe(rep),
        "C13" => c13::describe(rep),
        "C14" => c14::describe(rep),
        "C15" => c15::describe(rep),
        "C16" => c16::describe(rep),
        "C17" => c17::describe(rep),
        "C18" => c18::describe(rep),
        "C19" => c19::describe(rep),
        "C20" => c20::describe(rep),
        _ => {}
    }
}
