//! Engines' common ground: run configuration, the report every check fills, the E1 product
//! enumerator (parallel, per-case watchdog, panic capture), violation artefacts, known findings
//! and the evidence writer.

use serde::de::DeserializeOwned;
use serde::Serialize;
use serde_json::{json, Value};
use std::collections::{BTreeMap, HashSet};
use std::hash::{Hash, Hasher};
use std::path::PathBuf;
use std::sync::atomic::{AtomicBool, AtomicU64, Ordering};
use std::sync::{Arc, Mutex};
use std::time::{Duration, Instant};

#[derive(Clone, Copy, PartialEq, Eq, Debug)]
pub enum Tier {
    Quick,
    Thorough,
}

#[derive(Clone, Debug)]
pub struct RunCfg {
    pub id: String,
    pub tier: Tier,
    pub seed: u64,
    pub threads: usize,
    /// overall wall-clock budget for the run (engines stop pulling new cases when it is used up
    /// and report `exhaustive: false` with what was completed)
    pub budget: Duration,
    pub started: Instant,
}

impl RunCfg {
    pub fn thorough(&self) -> bool {
        self.tier == Tier::Thorough
    }
    pub fn remaining(&self) -> Duration {
        self.budget.saturating_sub(self.started.elapsed())
    }
}

/// Deterministic 64-bit hash (SipHash with fixed keys).
pub fn h64<T: Hash + ?Sized>(t: &T) -> u64 {
    #[allow(deprecated)]
    let mut s = std::hash::SipHasher::new();
    t.hash(&mut s);
    s.finish()
}

pub fn hbytes(b: &[u8]) -> u64 {
    h64(b)
}

// ---------------------------------------------------------------------------------------------
// panic capture
// ---------------------------------------------------------------------------------------------

thread_local! {
    static LAST_PANIC: std::cell::RefCell<String> = const { std::cell::RefCell::new(String::new()) };
}

pub fn install_panic_hook() {
    std::panic::set_hook(Box::new(|info| {
        let msg = if let Some(s) = info.payload().downcast_ref::<&str>() {
            s.to_string()
        } else if let Some(s) = info.payload().downcast_ref::<String>() {
            s.clone()
        } else {
            "<non-string panic>".to_string()
        };
        let loc = info.location().map(|l| format!("{}:{}", l.file(), l.line())).unwrap_or_default();
        LAST_PANIC.with(|p| *p.borrow_mut() = format!("{} @ {}", msg, loc));
    }));
}

/// Run `f`, turning a panic into `Err(message @ file:line)`.
pub fn guard<T>(f: impl FnOnce() -> T) -> Result<T, String> {
    match std::panic::catch_unwind(std::panic::AssertUnwindSafe(f)) {
        Ok(v) => Ok(v),
        Err(_) => Err(LAST_PANIC.with(|p| p.borrow().clone())),
    }
}

/// Short, stable class of a panic message (text up to the first digit run / location), used in
/// violation signatures so that the same defect gives the same key.
pub fn panic_class(msg: &str) -> String {
    let head = msg.split(" @ ").next().unwrap_or(msg);
    let loc = msg.split(" @ ").nth(1).unwrap_or("");
    let file = loc.rsplit('/').next().unwrap_or(loc);
    let file = file.split(':').next().unwrap_or(file);
    // `unwrap()` / `expect()` messages embed the error value after ": " — not part of the class
    let head = if head.contains("unwrap()") || head.contains("expect(") { head.split(": ").next().unwrap_or(head) } else { head };
    let mut s: String = head.chars().filter(|c| !c.is_ascii_digit()).take(60).collect();
    s = s.replace('\n', " ");
    format!("{}@{}", s.trim(), file)
}

// ---------------------------------------------------------------------------------------------
// case results
// ---------------------------------------------------------------------------------------------

#[derive(Clone, Debug)]
pub struct Fail {
    /// signature of the violation: stable under re-runs, specific enough that a different
    /// violation of the same property has a different key
    pub key: String,
    pub expected: String,
    pub observed: String,
}

#[derive(Clone, Debug)]
pub enum Verdict {
    Pass,
    /// case lies outside the property's domain (counted, never judged)
    Skip(String),
    Fail(Fail),
}

#[derive(Clone, Debug)]
pub struct CaseOut {
    pub nontrivial: bool,
    /// hash of the observation class (to expose vacuity: many cases, one outcome)
    pub outcome: u64,
    /// number of implementation steps compared with the reference in this case
    pub steps: u64,
    pub verdict: Verdict,
}

impl CaseOut {
    pub fn pass(nontrivial: bool, outcome: u64, steps: u64) -> Self {
        CaseOut { nontrivial, outcome, steps, verdict: Verdict::Pass }
    }
    pub fn skip(why: &str) -> Self {
        CaseOut { nontrivial: false, outcome: h64(why), steps: 0, verdict: Verdict::Skip(why.to_string()) }
    }
    /// The case could not be decided (e.g. the subject no longer has the structure the exhaustive family is built on):
    /// never a violation; the run is reported as not exhaustive and the reason is listed among the observations.
    pub fn undecided(why: &str) -> Self {
        CaseOut::skip(&format!("UNDECIDED: {why}"))
    }
    pub fn fail(key: impl Into<String>, expected: impl Into<String>, observed: impl Into<String>) -> Self {
        let key = key.into();
        CaseOut {
            nontrivial: true,
            outcome: h64(&key),
            steps: 1,
            verdict: Verdict::Fail(Fail { key, expected: expected.into(), observed: observed.into() }),
        }
    }
    pub fn is_fail(&self) -> bool {
        matches!(self.verdict, Verdict::Fail(_))
    }
}

fn trunc(s: &str, n: usize) -> String {
    if s.len() <= n {
        s.to_string()
    } else {
        let mut e = n;
        while !s.is_char_boundary(e) {
            e -= 1;
        }
        format!("{}…[{} bytes]", &s[..e], s.len())
    }
}

// ---------------------------------------------------------------------------------------------
// report
// ---------------------------------------------------------------------------------------------

pub struct ViolationRec {
    pub section: String,
    pub case: Value,
    pub fail: Fail,
    pub count: u64,
    /// position of the witness in the enumeration order (the smallest one seen is kept)
    pub order: u64,
}

#[derive(Default)]
pub struct SectionStat {
    pub name: String,
    pub engine: String,
    pub cases: u64,
    pub nontrivial: u64,
    pub skipped: u64,
    pub outcomes: u64,
    pub steps: u64,
    pub states: u64,
    pub transitions: u64,
    pub exhaustive: bool,
    pub bound: String,
    pub wall_s: f64,
    pub extra: Value,
}

pub struct Report {
    pub cfg: RunCfg,
    pub level: String,
    pub evaluations: AtomicU64,
    pub skipped: AtomicU64,
    pub steps: AtomicU64,
    pub states: AtomicU64,
    pub transitions: AtomicU64,
    nontrivial: Mutex<HashSet<u64>>,
    outcomes: Mutex<HashSet<u64>>,
    pub samples: Mutex<Vec<Value>>,
    pub violations: Mutex<BTreeMap<String, ViolationRec>>,
    pub sections: Mutex<Vec<SectionStat>>,
    pub observations: Mutex<Vec<String>>,
    pub assumptions: Mutex<Vec<String>>,
    pub rule: Mutex<String>,
    pub machinery_errors: Mutex<Vec<String>>,
    pub exhaustive: AtomicBool,
}

impl Report {
    pub fn new(cfg: RunCfg, level: &str) -> Self {
        Report {
            cfg,
            level: level.to_string(),
            evaluations: AtomicU64::new(0),
            skipped: AtomicU64::new(0),
            steps: AtomicU64::new(0),
            states: AtomicU64::new(0),
            transitions: AtomicU64::new(0),
            nontrivial: Mutex::new(HashSet::new()),
            outcomes: Mutex::new(HashSet::new()),
            samples: Mutex::new(vec![]),
            violations: Mutex::new(BTreeMap::new()),
            sections: Mutex::new(vec![]),
            observations: Mutex::new(vec![]),
            assumptions: Mutex::new(vec![]),
            rule: Mutex::new(String::new()),
            machinery_errors: Mutex::new(vec![]),
            exhaustive: AtomicBool::new(true),
        }
    }

    pub fn observe(&self, s: impl Into<String>) {
        let s = s.into();
        let mut o = self.observations.lock().unwrap();
        if o.len() < 200 && !o.contains(&s) {
            o.push(s);
        }
    }
    pub fn assume(&self, s: impl Into<String>) {
        self.assumptions.lock().unwrap().push(s.into());
    }
    pub fn set_rule(&self, s: impl Into<String>) {
        *self.rule.lock().unwrap() = s.into();
    }
    pub fn machinery_error(&self, s: impl Into<String>) {
        self.machinery_errors.lock().unwrap().push(s.into());
    }
    pub fn sample(&self, v: Value) {
        let mut s = self.samples.lock().unwrap();
        if s.len() < 24 {
            s.push(v);
        }
    }

    /// Record one executed case.
    pub fn record(&self, section: &str, case_hash: u64, case_json: impl FnOnce() -> Value, out: &CaseOut) {
        self.record_at(section, case_hash, u64::MAX, case_json, out)
    }

    /// Like `record`, with the position of the case in the enumeration (simplest first): the
    /// witness kept for a violation key is the earliest one, independent of thread timing.
    pub fn record_at(&self, section: &str, case_hash: u64, order: u64, case_json: impl FnOnce() -> Value, out: &CaseOut) {
        self.evaluations.fetch_add(1, Ordering::Relaxed);
        self.steps.fetch_add(out.steps, Ordering::Relaxed);
        match &out.verdict {
            Verdict::Skip(why) => {
                self.skipped.fetch_add(1, Ordering::Relaxed);
                if why.starts_with("UNDECIDED") {
                    self.exhaustive.store(false, Ordering::Relaxed);
                    static SHOWN: std::sync::atomic::AtomicUsize = std::sync::atomic::AtomicUsize::new(0);
                    if SHOWN.fetch_add(1, Ordering::Relaxed) < 8 {
                        println!("NOT-EXHAUSTIVE: [{section}] {}", trunc(why, 900));
                    }
                    self.observe(format!("[{section}] {why}"));
                }
            }
            Verdict::Pass => {}
            Verdict::Fail(f) => {
                let mut v = self.violations.lock().unwrap();
                if let Some(r) = v.get_mut(&f.key) {
                    r.count += 1;
                    if order < r.order {
                        r.order = order;
                        r.case = case_json();
                        r.fail = f.clone();
                        r.section = section.to_string();
                    }
                } else if v.len() < 500 {
                    v.insert(
                        f.key.clone(),
                        ViolationRec { section: section.to_string(), case: case_json(), fail: f.clone(), count: 1, order },
                    );
                }
            }
        }
        if out.nontrivial {
            self.nontrivial.lock().unwrap().insert(case_hash);
        }
        let mut o = self.outcomes.lock().unwrap();
        if o.len() < 1_000_000 {
            o.insert(out.outcome);
        }
    }

    pub fn add_violation(&self, section: &str, case: Value, fail: Fail) {
        let mut v = self.violations.lock().unwrap();
        if let Some(r) = v.get_mut(&fail.key) {
            r.count += 1;
        } else if v.len() < 500 {
            v.insert(fail.key.clone(), ViolationRec { section: section.to_string(), case, fail, count: 1, order: u64::MAX });
        }
    }

    pub fn nontrivial_count(&self) -> u64 {
        self.nontrivial.lock().unwrap().len() as u64
    }
    pub fn mark_nontrivial(&self, hsh: u64) {
        self.nontrivial.lock().unwrap().insert(hsh);
    }
    pub fn mark_outcome(&self, hsh: u64) {
        self.outcomes.lock().unwrap().insert(hsh);
    }
    pub fn outcome_count(&self) -> u64 {
        self.outcomes.lock().unwrap().len() as u64
    }
    pub fn push_section(&self, s: SectionStat) {
        if !s.exhaustive {
            self.exhaustive.store(false, Ordering::SeqCst);
        }
        eprintln!(
            "[{}] section {:<28} engine={} cases={} nontrivial={} skipped={} outcomes={} steps={} states={} transitions={} exhaustive={} bound=\"{}\" {:.1}s",
            self.cfg.id, s.name, s.engine, s.cases, s.nontrivial, s.skipped, s.outcomes, s.steps, s.states, s.transitions, s.exhaustive, s.bound, s.wall_s
        );
        self.sections.lock().unwrap().push(s);
    }
}

// ---------------------------------------------------------------------------------------------
// sections
// ---------------------------------------------------------------------------------------------

pub trait AnySection: Send {
    fn name(&self) -> String;
    fn run(self: Box<Self>, rep: &Arc<Report>);
    /// Re-execute one recorded case without the explorer.
    fn replay(&self, case: &Value) -> Result<CaseOut, String>;
}

pub type CaseIter<C> = Box<dyn Iterator<Item = C> + Send>;
pub type CheckFn<C> = Arc<dyn Fn(&C) -> CaseOut + Send + Sync>;

/// E1: a finite, ordered (simplest first) enumeration of cases, each executed on the real code.
pub struct E1<C> {
    pub name: String,
    pub bound: String,
    pub cases: Option<CaseIter<C>>,
    pub check: CheckFn<C>,
    /// per-case deadline; a case that runs longer is a non-termination violation
    pub deadline: Duration,
    /// signature used when a case hangs
    pub hang_key: Arc<dyn Fn(&C) -> String + Send + Sync>,
    /// fraction of the remaining budget this section may use
    pub budget_share: f64,
    /// number of consecutive cases a worker pulls at once (1 for sections with heavy cases)
    pub batch: usize,
}

impl<C: Serialize + DeserializeOwned + Clone + Send + 'static> E1<C> {
    pub fn new(
        name: &str,
        bound: &str,
        cases: impl Iterator<Item = C> + Send + 'static,
        check: impl Fn(&C) -> CaseOut + Send + Sync + 'static,
    ) -> Box<Self> {
        Box::new(E1 {
            name: name.to_string(),
            bound: bound.to_string(),
            cases: Some(Box::new(cases)),
            check: Arc::new(check),
            deadline: Duration::from_secs(60),
            hang_key: Arc::new(|_| "nontermination".to_string()),
            budget_share: 1.0,
            batch: 16,
        })
    }
    pub fn batch(mut self: Box<Self>, n: usize) -> Box<Self> {
        self.batch = n.max(1);
        self
    }
    pub fn deadline(mut self: Box<Self>, d: Duration) -> Box<Self> {
        self.deadline = d;
        self
    }
    pub fn hang_key(mut self: Box<Self>, f: impl Fn(&C) -> String + Send + Sync + 'static) -> Box<Self> {
        self.hang_key = Arc::new(f);
        self
    }
    pub fn share(mut self: Box<Self>, s: f64) -> Box<Self> {
        self.budget_share = s;
        self
    }
}

struct WorkerSlot<C> {
    current: Mutex<Option<(Instant, C)>>,
    abandoned: AtomicBool,
    done: AtomicBool,
    /// CPU clock of the worker thread (0 = unknown) and its reading when the current case started (ns)
    cpu_clock: std::sync::atomic::AtomicI64,
    cpu_at_start: AtomicU64,
}

// CPU time of another thread (Linux): a per-case deadline is a statement about the work a case does, not about how
// many other processes share the machine. A healthy case that got 1/12 of a core at load 200 was once reported as
// non-termination by the wall-clock watchdog (DESIGN §10); a hang burns CPU, so the watchdog now asks for the
// deadline in CPU time of the worker thread, and falls back to 25x the deadline in wall time for a case that blocks.
pub mod cpuclock {
    #[repr(C)]
    pub struct Timespec {
        pub tv_sec: i64,
        pub tv_nsec: i64,
    }
    extern "C" {
        pub fn pthread_self() -> usize;
        pub fn pthread_getcpuclockid(thread: usize, clock_id: *mut i32) -> i32;
        pub fn clock_gettime(clock_id: i32, tp: *mut Timespec) -> i32;
    }
    /// clock id of the calling thread's CPU-time clock, -1 if unavailable (0 is CLOCK_REALTIME and never returned here)
    pub fn own_clock() -> i64 {
        let mut id: i32 = 0;
        let r = unsafe { pthread_getcpuclockid(pthread_self(), &mut id) };
        if r == 0 && id != 0 {
            id as i64
        } else {
            -1
        }
    }
    pub fn read_ns(clock: i64) -> Option<u64> {
        if clock == 0 || clock == -1 {
            return None;
        }
        let mut ts = Timespec { tv_sec: 0, tv_nsec: 0 };
        let r = unsafe { clock_gettime(clock as i32, &mut ts) };
        if r == 0 {
            Some(ts.tv_sec as u64 * 1_000_000_000 + ts.tv_nsec as u64)
        } else {
            None
        }
    }
}

struct Shared<C> {
    batch: usize,
    iter: Mutex<Option<CaseIter<C>>>,
    stop: AtomicBool,
    pulled: AtomicU64,
    cases: AtomicU64,
    nontrivial: AtomicU64,
    skipped: AtomicU64,
    steps: AtomicU64,
    outcomes: Mutex<HashSet<u64>>,
    last_case: Mutex<Option<C>>,
    mid_case: Mutex<Option<C>>,
}

fn worker_loop<C: Serialize + Clone + Send + 'static>(
    sh: Arc<Shared<C>>,
    slot: Arc<WorkerSlot<C>>,
    check: CheckFn<C>,
    rep: Arc<Report>,
    section: String,
) {
    heathcliff_thread_init();
    let my_clock = cpuclock::own_clock();
    slot.cpu_clock.store(my_clock, Ordering::SeqCst);
    loop {
        if sh.stop.load(Ordering::SeqCst) || slot.abandoned.load(Ordering::SeqCst) {
            break;
        }
        // pull a small batch
        let mut batch: Vec<(u64, C)> = Vec::with_capacity(sh.batch);
        {
            let mut it = sh.iter.lock().unwrap();
            if let Some(i) = it.as_mut() {
                for _ in 0..sh.batch {
                    match i.next() {
                        Some(c) => {
                            let idx = sh.pulled.fetch_add(1, Ordering::SeqCst);
                            batch.push((idx, c));
                        }
                        None => {
                            *it = None;
                            break;
                        }
                    }
                }
            }
        }
        if batch.is_empty() {
            break;
        }
        for (idx, c) in batch {
            if slot.abandoned.load(Ordering::SeqCst) {
                return;
            }
            slot.cpu_at_start.store(cpuclock::read_ns(my_clock).unwrap_or(0), Ordering::SeqCst);
            *slot.current.lock().unwrap() = Some((Instant::now(), c.clone()));
            let out = match guard(|| check(&c)) {
                Ok(o) => o,
                Err(p) => CaseOut::fail(
                    format!("unexpected-panic:{}", panic_class(&p)),
                    "no panic outside the guarded subject calls",
                    p,
                ),
            };
            *slot.current.lock().unwrap() = None;
            if slot.abandoned.load(Ordering::SeqCst) {
                return; // the watchdog already reported this case
            }
            let ch = h64(&(section.as_str(), serde_json::to_string(&c).unwrap_or_default()));
            rep.record_at(&section, ch, idx, || serde_json::to_value(&c).unwrap_or(Value::Null), &out);
            sh.cases.fetch_add(1, Ordering::Relaxed);
            if out.nontrivial {
                sh.nontrivial.fetch_add(1, Ordering::Relaxed);
            }
            if matches!(out.verdict, Verdict::Skip(_)) {
                sh.skipped.fetch_add(1, Ordering::Relaxed);
            }
            sh.steps.fetch_add(out.steps, Ordering::Relaxed);
            {
                let mut o = sh.outcomes.lock().unwrap();
                if o.len() < 1_000_000 {
                    o.insert(out.outcome);
                }
            }
            if idx.is_power_of_two() {
                *sh.mid_case.lock().unwrap() = Some(c.clone());
            }
            *sh.last_case.lock().unwrap() = Some(c);
        }
    }
    slot.done.store(true, Ordering::SeqCst);
}

/// Per-thread initialisation (nothing thread-local may leak from one case into the next:
/// scripts are always set explicitly by the cases that use them).
pub fn heathcliff_thread_init() {
    heathcliff::verif_hooks::set_entropy(None);
    heathcliff::verif_hooks::set_noise(heathcliff::verif_hooks::NoiseMode::Real, heathcliff::verif_hooks::NoiseMode::Real);
    heathcliff::verif_hooks::set_nt_draws(None);
}

impl<C: Serialize + DeserializeOwned + Clone + Send + 'static> AnySection for E1<C> {
    fn name(&self) -> String {
        self.name.clone()
    }

    fn replay(&self, case: &Value) -> Result<CaseOut, String> {
        let c: C = serde_json::from_value(case.clone()).map_err(|e| format!("cannot parse case: {e}"))?;
        heathcliff_thread_init();
        Ok(match guard(|| (self.check)(&c)) {
            Ok(o) => o,
            Err(p) => CaseOut::fail(format!("unexpected-panic:{}", panic_class(&p)), "no panic", p),
        })
    }

    fn run(mut self: Box<Self>, rep: &Arc<Report>) {
        let t0 = Instant::now();
        let name = self.name.clone();
        let mut iter = self.cases.take().expect("section already run");

        // determinism self-test: the first cases are executed twice, sequentially, in fresh threads
        let mut head: Vec<C> = vec![];
        for _ in 0..24 {
            match iter.next() {
                Some(c) => head.push(c),
                None => break,
            }
        }
        {
            let check = self.check.clone();
            let run_once = |cases: Vec<C>| {
                let check = check.clone();
                std::thread::spawn(move || {
                    heathcliff_thread_init();
                    cases
                        .iter()
                        .map(|c| match guard(|| check(c)) {
                            Ok(o) => (o.outcome, o.is_fail()),
                            Err(p) => (h64(&panic_class(&p)), true),
                        })
                        .collect::<Vec<_>>()
                })
            };
            let dl = self.deadline;
            let join = |h: std::thread::JoinHandle<Vec<(u64, bool)>>| {
                let t = Instant::now();
                while !h.is_finished() && t.elapsed() < dl * 24 {
                    std::thread::sleep(Duration::from_millis(2));
                }
                if h.is_finished() {
                    h.join().ok()
                } else {
                    None
                }
            };
            let a = join(run_once(head.clone()));
            let b = join(run_once(head.clone()));
            match (a, b) {
                (Some(a), Some(b)) => {
                    if a != b {
                        rep.machinery_error(format!(
                            "section {name}: determinism self-test failed (same cases, different observations)"
                        ));
                    }
                }
                _ => { /* a hang among the first cases: the main loop reports it */ }
            }
        }
        let iter: CaseIter<C> = Box::new(head.into_iter().chain(iter));

        let sh = Arc::new(Shared {
            batch: self.batch,
            iter: Mutex::new(Some(iter)),
            stop: AtomicBool::new(false),
            pulled: AtomicU64::new(0),
            cases: AtomicU64::new(0),
            nontrivial: AtomicU64::new(0),
            skipped: AtomicU64::new(0),
            steps: AtomicU64::new(0),
            outcomes: Mutex::new(HashSet::new()),
            last_case: Mutex::new(None),
            mid_case: Mutex::new(None),
        });
        let budget = rep.cfg.remaining().mul_f64(self.budget_share.clamp(0.01, 1.0));
        let mut slots: Vec<Arc<WorkerSlot<C>>> = vec![];
        let spawn = |slots: &mut Vec<Arc<WorkerSlot<C>>>| {
            let slot = Arc::new(WorkerSlot { current: Mutex::new(None), abandoned: AtomicBool::new(false), done: AtomicBool::new(false), cpu_clock: std::sync::atomic::AtomicI64::new(0), cpu_at_start: AtomicU64::new(0) });
            slots.push(slot.clone());
            let (sh, check, rep, name) = (sh.clone(), self.check.clone(), rep.clone(), name.clone());
            std::thread::Builder::new()
                .stack_size(64 << 20)
                .spawn(move || worker_loop(sh, slot, check, rep, name))
                .expect("spawn worker");
        };
        for _ in 0..rep.cfg.threads {
            spawn(&mut slots);
        }
        let mut hung = 0usize;
        let mut capped = false;
        loop {
            std::thread::sleep(Duration::from_millis(5));
            let mut all_done = true;
            let mut to_spawn = 0;
            for s in slots.iter() {
                if s.abandoned.load(Ordering::SeqCst) || s.done.load(Ordering::SeqCst) {
                    continue;
                }
                all_done = false;
                let cur = s.current.lock().unwrap().clone();
                if let Some((t, c)) = cur {
                    let wall = t.elapsed();
                    let over = wall > self.deadline && {
                        // still the same case? (the worker may have moved on between the two reads: then the next tick decides)
                        let cpu_used = cpuclock::read_ns(s.cpu_clock.load(Ordering::SeqCst)).map(|now| Duration::from_nanos(now.saturating_sub(s.cpu_at_start.load(Ordering::SeqCst))));
                        match cpu_used {
                            Some(used) => used > self.deadline || wall > self.deadline * 25,
                            None => wall > self.deadline * 4,
                        }
                    };
                    if over && s.current.lock().unwrap().as_ref().map(|(t2, _)| *t2 == t).unwrap_or(false) {
                        s.abandoned.store(true, Ordering::SeqCst);
                        hung += 1;
                        let key = (self.hang_key)(&c);
                        let out = CaseOut::fail(
                            key,
                            format!("the call returns (deadline {:?})", self.deadline),
                            "still running at the deadline: non-termination",
                        );
                        let ch = h64(&(name.as_str(), serde_json::to_string(&c).unwrap_or_default()));
                        rep.record(&name, ch, || serde_json::to_value(&c).unwrap_or(Value::Null), &out);
                        sh.cases.fetch_add(1, Ordering::Relaxed);
                        if hung < 12 {
                            to_spawn += 1;
                        } else {
                            sh.stop.store(true, Ordering::SeqCst);
                            capped = true;
                        }
                    }
                }
            }
            for _ in 0..to_spawn {
                spawn(&mut slots);
                all_done = false;
            }
            if all_done {
                break;
            }
            if t0.elapsed() > budget && !sh.stop.load(Ordering::SeqCst) {
                sh.stop.store(true, Ordering::SeqCst);
                capped = true;
            }
        }
        let exhausted = sh.iter.lock().unwrap().is_none();
        let cases = sh.cases.load(Ordering::SeqCst);
        // `exhausted` means every case was pulled, and pulled batches are always processed to the end,
        // so a budget that runs out while the last batches drain does not make the run partial
        let exhaustive = exhausted && hung < 12;
        for c in [sh.mid_case.lock().unwrap().take(), sh.last_case.lock().unwrap().take()].into_iter().flatten() {
            rep.sample(json!({"section": name, "case": serde_json::to_value(&c).unwrap_or(Value::Null)}));
        }
        let bound = if exhaustive {
            self.bound.clone()
        } else {
            format!("{} — CAPPED: only the first {} cases (simplest-first order) were completed", self.bound, cases)
        };
        rep.push_section(SectionStat {
            name,
            engine: "E1".into(),
            cases,
            nontrivial: sh.nontrivial.load(Ordering::SeqCst),
            skipped: sh.skipped.load(Ordering::SeqCst),
            outcomes: sh.outcomes.lock().unwrap().len() as u64,
            steps: sh.steps.load(Ordering::SeqCst),
            states: cases,
            transitions: sh.steps.load(Ordering::SeqCst),
            exhaustive,
            bound,
            wall_s: t0.elapsed().as_secs_f64(),
            extra: json!({"hung_cases": hung}),
        });
        rep.states.fetch_add(cases, Ordering::Relaxed);
        rep.transitions.fetch_add(sh.steps.load(Ordering::SeqCst), Ordering::Relaxed);
    }
}

// ---------------------------------------------------------------------------------------------
// known findings, replay artefacts, evidence
// ---------------------------------------------------------------------------------------------

#[derive(serde::Deserialize, Clone, Debug)]
pub struct KnownFinding {
    pub property: String,
    pub key: String,
    pub status: String,
    #[serde(default)]
    pub commit: String,
    #[serde(default)]
    pub what: String,
}

pub fn verif_root() -> PathBuf {
    if let Ok(p) = std::env::var("VERIF_ROOT") {
        return PathBuf::from(p);
    }
    // <root>/harness/target/release/hcv  (or <scratch>/.hcv-build/target/release/hcv for mutant runs: then /verif)
    if let Ok(exe) = std::env::current_exe() {
        if let Some(root) = exe.ancestors().nth(4) {
            if root.join("properties.jsonl").exists() && root.join("harness").exists() {
                return root.to_path_buf();
            }
        }
    }
    PathBuf::from("/verif")
}

/// Where evidence and replay artefacts are written (default: the verif root). Runs against scratch
/// copies of the subject (mutants, seeded changes) set VERIF_OUT_DIR so that they never touch the
/// committed evidence.
pub fn out_root() -> PathBuf {
    match std::env::var("VERIF_OUT_DIR") {
        Ok(p) if !p.is_empty() => PathBuf::from(p),
        _ => verif_root(),
    }
}

pub fn load_known() -> Vec<KnownFinding> {
    let p = verif_root().join("known_findings.json");
    let Ok(s) = std::fs::read_to_string(&p) else { return vec![] };
    #[derive(serde::Deserialize)]
    struct F {
        findings: Vec<KnownFinding>,
    }
    match serde_json::from_str::<F>(&s) {
        Ok(f) => f.findings,
        Err(e) => {
            eprintln!("known_findings.json unreadable: {e}");
            vec![]
        }
    }
}

fn key_matches(pattern: &str, key: &str) -> bool {
    if let Some(p) = pattern.strip_suffix('*') {
        key.starts_with(p)
    } else {
        pattern == key
    }
}

/// Writes replay files + evidence, prints VIOLATION / KNOWN-FINDING lines, returns the exit code.
pub fn finish(rep: &Report) -> i32 {
    let id = rep.cfg.id.clone();
    let root = verif_root();
    let known = load_known();
    let viol = rep.violations.lock().unwrap();
    let mut new_violations = 0;
    let mut known_hits: BTreeMap<String, u64> = BTreeMap::new();
    let replay_dir = out_root().join("replays").join(&id);
    for (key, v) in viol.iter() {
        let k = known.iter().find(|k| k.property == id && k.status == "known" && key_matches(&k.key, key));
        if let Some(k) = k {
            *known_hits.entry(format!("{} [{}]", k.what, k.key)).or_insert(0) += v.count;
            continue;
        }
        new_violations += 1;
        let _ = std::fs::create_dir_all(&replay_dir);
        let path = replay_dir.join(format!("{:016x}.json", h64(key)));
        let doc = json!({
            "property": id, "key": key, "section": v.section, "case": v.case,
            "expected": trunc(&v.fail.expected, 4000), "observed": trunc(&v.fail.observed, 4000),
            "seed": rep.cfg.seed, "occurrences": v.count,
        });
        let _ = std::fs::write(&path, serde_json::to_string_pretty(&doc).unwrap());
        if new_violations <= 40 {
            println!("VIOLATION property={} replay={}", id, path.display());
            eprintln!("  key={} section={} occurrences={}\n  expected: {}\n  observed: {}", key, v.section, v.count, trunc(&v.fail.expected, 300), trunc(&v.fail.observed, 300));
        }
    }
    for (what, n) in known_hits.iter() {
        println!("KNOWN-FINDING: property={} {} ({} occurrences)", id, what, n);
    }
    let merr = rep.machinery_errors.lock().unwrap();
    for e in merr.iter() {
        eprintln!("MACHINERY-ERROR: {e}");
    }

    // evidence
    let sections: Vec<Value> = rep
        .sections
        .lock()
        .unwrap()
        .iter()
        .map(|s| {
            json!({"name": s.name, "engine": s.engine, "cases": s.cases, "nontrivial": s.nontrivial, "skipped_outside_domain": s.skipped,
                   "distinct_outcomes": s.outcomes, "impl_steps_compared": s.steps, "states": s.states, "transitions": s.transitions,
                   "exhaustive": s.exhaustive, "bound": s.bound, "wall_s": s.wall_s, "extra": s.extra})
        })
        .collect();
    let samples = rep.samples.lock().unwrap().clone();
    let states = rep.states.load(Ordering::SeqCst);
    let transitions = rep.transitions.load(Ordering::SeqCst);
    let ev = json!({
        "property_id": id,
        "tier": if rep.cfg.tier == Tier::Quick {"quick"} else {"thorough"},
        "seed": rep.cfg.seed,
        "level": rep.level,
        "coverage": {
            "evaluations": rep.evaluations.load(Ordering::SeqCst),
            "distinct_nontrivial": rep.nontrivial_count(),
            "rule": rep.rule.lock().unwrap().clone(),
            "samples": if samples.is_empty() { vec![json!("no case executed")] } else { samples },
            "states": states.max(1),
            "transitions": transitions.max(1),
            "traces_validated_against_impl": rep.steps.load(Ordering::SeqCst),
            "skipped_outside_domain": rep.skipped.load(Ordering::SeqCst),
            "distinct_outcomes": rep.outcome_count(),
            "exhaustive": rep.exhaustive.load(Ordering::SeqCst),
            "sections": sections,
            "observations": rep.observations.lock().unwrap().clone(),
            "known_findings_hit": known_hits.keys().cloned().collect::<Vec<_>>(),
            "machinery_errors": merr.clone(),
        },
        "assumptions": rep.assumptions.lock().unwrap().clone(),
        "wall_s": rep.cfg.started.elapsed().as_secs_f64(),
        "violations": new_violations,
    });
    let evdir = out_root().join("evidence");
    let _ = std::fs::create_dir_all(&evdir);
    let _ = std::fs::write(evdir.join(format!("{id}.json")), serde_json::to_string_pretty(&ev).unwrap());
    eprintln!(
        "[{}] evaluations={} nontrivial={} outcomes={} states={} transitions={} validated_steps={} violations={} known={} exhaustive={} wall={:.1}s",
        id,
        rep.evaluations.load(Ordering::SeqCst),
        rep.nontrivial_count(),
        rep.outcome_count(),
        states,
        transitions,
        rep.steps.load(Ordering::SeqCst),
        new_violations,
        known_hits.len(),
        rep.exhaustive.load(Ordering::SeqCst),
        rep.cfg.started.elapsed().as_secs_f64()
    );
    if !merr.is_empty() {
        return 2;
    }
    if new_violations > 0 {
        1
    } else {
        0
    }
}
