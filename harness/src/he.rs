//! Helpers around the subject: self-contained parameter descriptions (explicit prime values, so
//! that replay files do not depend on any prime search), key/tool kits, scripted environment.

use crate::engine::h64;
use crate::refmodel::bigu::primes_1_mod;
use heathcliff::verif_hooks::{self, NoiseMode};
use heathcliff::*;
use serde::{Deserialize, Serialize};
use std::sync::Arc;

#[derive(Serialize, Deserialize, Clone, Copy, Debug, PartialEq, Eq, Hash)]
pub enum Scheme {
    BFV,
    BGV,
    CKKS,
}

impl Scheme {
    pub fn ty(self) -> SchemeType {
        match self {
            Scheme::BFV => SchemeType::BFV,
            Scheme::BGV => SchemeType::BGV,
            Scheme::CKKS => SchemeType::CKKS,
        }
    }
    pub fn all() -> [Scheme; 3] {
        [Scheme::BFV, Scheme::BGV, Scheme::CKKS]
    }
}

#[derive(Serialize, Deserialize, Clone, Debug, PartialEq, Eq, Hash)]
pub struct ParamSpec {
    pub scheme: Scheme,
    pub n: usize,
    /// coefficient moduli, key level (all of them, in order)
    pub q: Vec<u64>,
    /// plain modulus (ignored for CKKS)
    pub t: u64,
    /// `use_special_prime_for_encryption`
    #[serde(default)]
    pub special_enc: bool,
}

impl ParamSpec {
    pub fn new(scheme: Scheme, n: usize, q: Vec<u64>, t: u64) -> Self {
        ParamSpec { scheme, n, q, t: if scheme == Scheme::CKKS { 0 } else { t }, special_enc: false }
    }
    pub fn parms(&self) -> EncryptionParameters {
        let mods: Vec<Modulus> = self.q.iter().map(|&v| Modulus::new(v)).collect();
        let mut p = EncryptionParameters::new(self.scheme.ty()).set_poly_modulus_degree(self.n).set_coeff_modulus(&mods);
        if self.scheme != Scheme::CKKS {
            p = p.set_plain_modulus_u64(self.t);
        }
        if self.special_enc {
            p = p.set_use_special_prime_for_encryption(true);
        }
        p
    }
    pub fn context(&self) -> Arc<HeContext> {
        HeContext::new(self.parms(), true, SecurityLevel::None)
    }
    pub fn label(&self) -> String {
        let bits: Vec<String> = self.q.iter().map(|q| format!("{}", 64 - q.leading_zeros())).collect();
        format!("{:?}/N{}/q[{}]/t{}{}", self.scheme, self.n, bits.join(","), self.t, if self.special_enc { "/spenc" } else { "" })
    }
}

/// `count` distinct NTT-friendly primes of `bits` bits for degree n (largest first).
pub fn ntt_primes(n: usize, bits: usize, count: usize) -> Vec<u64> {
    let v = primes_1_mod(2 * n as u64, bits, count);
    assert_eq!(v.len(), count, "not enough {bits}-bit primes = 1 mod {}", 2 * n);
    v
}

/// distinct primes for a list of bit sizes (repeated sizes give different primes), in the order given
pub fn chain(n: usize, bits: &[usize]) -> Vec<u64> {
    let mut used: Vec<u64> = vec![];
    let mut out = vec![];
    for &b in bits {
        let cnt = bits.iter().filter(|&&x| x == b).count();
        let cands = ntt_primes(n, b, cnt);
        let p = *cands.iter().find(|p| !used.contains(p)).unwrap();
        used.push(p);
        out.push(p);
    }
    out
}

/// like `chain`, but with the SMALLEST primes of each bit size (just above 2^(bits-1)): the bit
/// length of the product is then smaller than the sum of the bit lengths
pub fn chain_low(n: usize, bits: &[usize]) -> Vec<u64> {
    let mut used: Vec<u64> = vec![];
    let mut out = vec![];
    for &b in bits {
        let cnt = bits.iter().filter(|&&x| x == b).count();
        let cands = crate::refmodel::bigu::primes_1_mod_low(2 * n as u64, b, cnt);
        let p = *cands.iter().find(|p| !used.contains(p)).unwrap();
        used.push(p);
        out.push(p);
    }
    out
}

/// Deterministic environment for one case: entropy script derived from (seed, tag), noise script.
pub fn env(seed: u64, tag: u64, ternary: NoiseMode, error: NoiseMode) {
    let mut base = [0u8; 32];
    base[..8].copy_from_slice(&seed.to_le_bytes());
    base[8..16].copy_from_slice(&tag.to_le_bytes());
    base[16..24].copy_from_slice(&h64(&(seed, tag)).to_le_bytes());
    verif_hooks::set_entropy(Some(base));
    verif_hooks::set_noise(ternary, error);
}

pub fn env_real(seed: u64, tag: u64) {
    env(seed, tag, NoiseMode::Real, NoiseMode::Real)
}

#[derive(Serialize, Deserialize, Clone, Copy, Debug, PartialEq, Eq, Hash)]
pub enum Noise {
    Real,
    Zero,
    AllMax,
    AllMin,
    Alt,
}

impl Noise {
    pub fn mode(self) -> NoiseMode {
        match self {
            Noise::Real => NoiseMode::Real,
            Noise::Zero => NoiseMode::Zero,
            Noise::AllMax => NoiseMode::AllMax,
            Noise::AllMin => NoiseMode::AllMin,
            Noise::Alt => NoiseMode::Alt,
        }
    }
    pub fn all() -> [Noise; 5] {
        [Noise::Real, Noise::Zero, Noise::AllMax, Noise::AllMin, Noise::Alt]
    }
}

/// Everything one usually needs for a parameter set.
pub struct Kit {
    pub spec: ParamSpec,
    pub ctx: Arc<HeContext>,
    pub keygen: KeyGenerator,
    pub sk: SecretKey,
    pub pk: PublicKey,
    pub enc: Encryptor,
    pub dec: Decryptor,
    pub eval: Evaluator,
}

impl Kit {
    /// Builds context and keys under the currently installed environment scripts.
    pub fn new(spec: &ParamSpec) -> Result<Kit, String> {
        let ctx = spec.context();
        if !ctx.parameters_set() {
            return Err("parameters not set".into());
        }
        let keygen = KeyGenerator::new(ctx.clone());
        let sk = keygen.secret_key().clone();
        let pk = keygen.create_public_key(false);
        let enc = Encryptor::new(ctx.clone()).set_public_key(pk.clone()).set_secret_key(sk.clone());
        let dec = Decryptor::new(ctx.clone(), sk.clone());
        let eval = Evaluator::new(ctx.clone());
        Ok(Kit { spec: spec.clone(), ctx, keygen, sk, pk, enc, dec, eval })
    }

    /// data-level parms ids from first to last
    pub fn levels(&self) -> Vec<ParmsID> {
        let mut v = vec![];
        let mut cd = self.ctx.first_context_data();
        while let Some(c) = cd {
            v.push(*c.parms_id());
            cd = c.next_context_data();
        }
        v
    }
    pub fn moduli_at(&self, id: &ParmsID) -> Vec<u64> {
        self.ctx.get_context_data(id).unwrap().parms().coeff_modulus().iter().map(|m| m.value()).collect()
    }
    pub fn t(&self) -> u64 {
        self.spec.t
    }
    pub fn n(&self) -> usize {
        self.spec.n
    }
    /// plaintext from coefficient values (BFV/BGV, coefficient form)
    pub fn plain(&self, coeffs: &[u64]) -> Plaintext {
        let mut p = Plaintext::new();
        p.resize(coeffs.len().max(1));
        for (i, &c) in coeffs.iter().enumerate() {
            p.data_mut()[i] = c;
        }
        p
    }
    /// decrypted coefficients padded to N
    pub fn dec_coeffs(&self, ct: &Ciphertext) -> Vec<u64> {
        let p = self.dec.decrypt_new(ct);
        let mut v: Vec<u64> = p.data()[..p.coeff_count().min(p.data().len())].to_vec();
        v.resize(self.spec.n, 0);
        v
    }
}

/// bytes of a ciphertext including metadata (for byte-equality oracles)
pub fn ct_fingerprint(ct: &Ciphertext) -> u64 {
    h64(&(
        ct.data().as_slice(),
        ct.size(),
        ct.parms_id(),
        ct.is_ntt_form(),
        ct.scale().to_bits(),
        ct.correction_factor(),
        ct.poly_modulus_degree(),
        ct.coeff_modulus_size(),
    ))
}

pub fn pt_fingerprint(p: &Plaintext) -> u64 {
    h64(&(p.data().as_slice(), p.coeff_count(), p.parms_id(), p.scale().to_bits()))
}

pub fn ct_meta(ct: &Ciphertext) -> String {
    format!(
        "size={} cms={} ntt={} scale={:e} cf={} len={}",
        ct.size(),
        ct.coeff_modulus_size(),
        ct.is_ntt_form(),
        ct.scale(),
        ct.correction_factor(),
        ct.data().len()
    )
}

/// Valid ciphertexts of OTHER shapes than the result an operation is about to produce (other size, flipped representation,
/// other level, BGV factor / CKKS scale of a deeper level). They are handed to the destination-argument forms `op(a, .., &mut dest)`:
/// what an output parameter held before the call must not influence the result (seeded round 4: five of seven history-gated
/// changes skipped a `resize` / a metadata reset when the destination "already looked right").
pub fn dirty_destinations(kit: &Kit) -> Vec<Ciphertext> {
    use crate::engine::guard;
    let mut v: Vec<Ciphertext> = vec![];
    let ev = &kit.eval;
    let pt = if kit.spec.scheme == Scheme::CKKS {
        let enc = CKKSEncoder::new(kit.ctx.clone());
        let vals: Vec<num_complex::Complex<f64>> = (0..kit.n() / 2).map(|i| num_complex::Complex::new(1.0 + i as f64, -0.5)).collect();
        match guard(|| enc.encode_c64_array_new(&vals, None, (1u64 << 16) as f64)) {
            Ok(p) => p,
            Err(_) => return v,
        }
    } else {
        kit.plain(&[1, 2 % kit.t().max(2)])
    };
    let Ok(a) = guard(|| kit.enc.encrypt_new(&pt)) else { return v };
    let flip = |c: &Ciphertext| guard(|| if c.is_ntt_form() { ev.transform_from_ntt_new(c) } else { ev.transform_to_ntt_new(c) });
    if let Ok(f) = flip(&a) {
        v.push(f);
    }
    if let Ok(p3) = guard(|| ev.multiply_new(&a, &a)) {
        if let Ok(p3n) = guard(|| ev.mod_switch_to_next_new(&p3)) {
            v.push(p3n);
        }
        if let Ok(p5) = guard(|| ev.multiply_new(&p3, &p3)) {
            v.push(p5);
        } else {
            v.push(p3);
        }
    }
    if let Ok(an) = guard(|| ev.mod_switch_to_next_new(&a)) {
        if let Ok(f) = flip(&an) {
            v.push(f);
        }
        // deepest level, natural form
        let mut cur = an;
        while let Ok(nx) = guard(|| ev.mod_switch_to_next_new(&cur)) {
            cur = nx;
        }
        v.push(cur);
    }
    v
}

/// A destination "like" the operand but wrong in one respect, without needing a Kit: variant 0 = one polynomial more at the same
/// level, 1 = same size and level with the representation flag flipped and stale scale / BGV factor, 2 = fresh. The data words
/// are junk below 2^20 (an output parameter's old contents are irrelevant by contract).
pub fn dirty_like(ct: &Ciphertext, salt: u64) -> Ciphertext {
    let k = ct.coeff_modulus_size();
    let n = ct.poly_modulus_degree();
    match salt % 3 {
        0 => Ciphertext::from_members(ct.size() + 1, k, n, (0..(ct.size() + 1) * k * n).map(|i| (i as u64 * 7919 + 13) & 0xF_FFFF).collect(), *ct.parms_id(), ct.scale() * 3.0, ct.correction_factor() + 2, ct.is_ntt_form()),
        1 => Ciphertext::from_members(ct.size(), k, n, (0..ct.size() * k * n).map(|i| (i as u64 * 104729 + 5) & 0xF_FFFF).collect(), *ct.parms_id(), ct.scale() * 0.5, ct.correction_factor() + 5, !ct.is_ntt_form()),
        _ => Ciphertext::new(),
    }
}
