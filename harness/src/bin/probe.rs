// scratch probes (not part of any check)
use heathcliff::*;
use heathcliff::multiparty::participant::Participant;
use heathcliff::util::{BlakeRNG, PRNGSeed};
use rand::SeedableRng;
fn main() {
    let n = 8usize;
    let q = hcv::he::chain(n, &[30, 30, 30]);
    for scheme in [hcv::he::Scheme::BFV, hcv::he::Scheme::BGV] {
        let spec = hcv::he::ParamSpec::new(scheme, n, q.clone(), 17);
        let context = spec.context();
        let encoder = BatchEncoder::new(context.clone());
        let prng_seed = PRNGSeed([1; 64]);
        let mut p0 = Participant::new(2, 0, context.clone(), BlakeRNG::from_seed(prng_seed));
        let mut p1 = Participant::new(2, 1, context.clone(), BlakeRNG::from_seed(prng_seed));
        let mut protocol0 = p0.generate_public_key();
        let protocol1 = p1.generate_public_key();
        let mut msg1 = Vec::new();
        protocol1.send(&mut msg1).unwrap();
        protocol0.receive(1, &mut msg1.as_slice()).unwrap();
        let pk = protocol0.finish();
        let values = vec![1, 3, 5, 16];
        let plain = encoder.encode_new(&values);
        let encryptor = Encryptor::new(context.clone()).set_public_key(pk.clone());
        let cipher = encryptor.encrypt_new(&plain);
        let mut protocol0 = p0.decrypt(&cipher);
        let protocol1 = p1.decrypt(&cipher);
        let mut msg1 = Vec::new();
        protocol1.send(&mut msg1).unwrap();
        protocol0.receive(1, &mut msg1.as_slice()).unwrap();
        let deciphered = protocol0.finish();
        let decoded = encoder.decode_new(&deciphered);
        println!("{:?}: {:?}", scheme, decoded);
    }
}
