//! E2c — explicit-state exploration of CKKS operation programs on the real Evaluator (the CKKS
//! analogue of e2.rs).
//!
//! A state is a real `Ciphertext` produced by the real CKKSEncoder / Encryptor / Evaluator plus
//! its shadow: the complex slot vector the program evaluates to (N/2 slots, f64 complex
//! arithmetic), the scale the bookkeeping must show (f64, compared bit for bit), an a-priori
//! absolute error bound in the slot domain, the magnitude of the shadow, and the program.
//!   phase A: concrete closure to depth 2 (every program of <= 2 operations over the alphabets),
//!            states deduplicated by (level, size, representation, scale bits, shadow)
//!   phase B: abstract closure to fixpoint, key = (level, size, representation, scale class),
//!            one concrete witness per abstract state, every (operation, abstract operand tuple)
//!            executed once on real data
//! Every transition is checked against the model:
//!   accept   a well-typed operand tuple was refused
//!   refusal  an ill-typed operand tuple (levels differ, scales differ, product scale / switched
//!            scale does not fit, non-NTT operand, size overflow, missing key power) was computed
//!   scale    recorded scale differs (f64 bits) from the IEEE expression the operation implies
//!   meta     size / level / representation / correction factor
//!   valid    result not valid for the context
//!   value    decode(decrypt(result)) farther from the shadow than the a-priori bound
//!   forms    in-place / destination / _new forms differ, operand modified
//!
//! Slot-domain error calculus (all terms are upper bounds; sigma = canonical embedding, which is
//! a ring homomorphism, so products and sums are exact slot-wise; a coefficient-domain
//! perturbation e contributes at most N*|e|_inf / scale to every slot):
//!   fresh      N*(E0 + 1/2 + fp)/s      E0 = 21(2N+1) + (1+N)/2 + 1 (Real) | (1+N)/2 + 1 (Zero)
//!   negate     unchanged                 add/sub: e1 + e2
//!   multiply   M1*e2 + M2*e1 + e1*e2     (M = max slot magnitude of the shadow)
//!   relin      + (size-2) * N*Eks/s      Eks = k*N*21*q_max/P + (1+N)/2 + 1 (Real) | (1+N)/2 + 1
//!   rescale    e*(1+2^-50) + M*2^-50 + N*R/s',  R = (1/2) sum_{i<size} N^i   (size 2: N(1+N)/(2s'))
//!   mod switch unchanged                 plain operands: encoding error N*(1/2 + fp)/s_p
//! The decoded value is compared whenever scale*(M+e) < Q_level/2 (no wrap-around possible); the
//! tolerance adds the double-precision error of the library's decoder (multi-word to f64).

use crate::engine::*;
use crate::he::*;
use crate::refmodel::bigu::*;
use heathcliff::verif_hooks::NoiseMode;
use heathcliff::*;
use num_complex::Complex;
use serde_json::{json, Value};
use std::collections::HashMap;
use std::sync::atomic::{AtomicU64, Ordering::Relaxed};
use std::sync::Arc;
use std::time::Instant;

pub type C64 = Complex<f64>;

#[derive(Clone, Copy, Debug, PartialEq, Eq, Hash)]
pub enum UnOp {
    Negate,
    Square,
    Relin,
    RelinFull,
    Rescale,
    ModSwitch,
    ToNtt,
    FromNtt,
}
#[derive(Clone, Copy, Debug, PartialEq, Eq, Hash)]
pub enum BinOp {
    Add,
    Sub,
    Mul,
}
#[derive(Clone, Copy, Debug, PartialEq, Eq, Hash)]
pub enum PlOp {
    AddPlain,
    SubPlain,
    MulPlain,
}
/// scale of a plain operand: exactly the ciphertext's, or a fixed power of two
#[derive(Clone, Copy, Debug, PartialEq, Eq, Hash)]
pub enum SMode {
    Match,
    P10,
    P20,
    P30,
}
/// level of a plain operand: the ciphertext's, or another one (level 0 for a ciphertext below it,
/// level 1 for a ciphertext on level 0)
#[derive(Clone, Copy, Debug, PartialEq, Eq, Hash)]
pub enum LMode {
    Same,
    Other,
}

pub const UNOPS: [UnOp; 8] = [UnOp::Negate, UnOp::Square, UnOp::Relin, UnOp::RelinFull, UnOp::Rescale, UnOp::ModSwitch, UnOp::ToNtt, UnOp::FromNtt];
pub const BINOPS: [BinOp; 3] = [BinOp::Add, BinOp::Sub, BinOp::Mul];
pub const PLOPS: [PlOp; 3] = [PlOp::AddPlain, PlOp::SubPlain, PlOp::MulPlain];
pub const SMODES: [SMode; 4] = [SMode::Match, SMode::P10, SMode::P20, SMode::P30];
pub const LMODES: [LMode; 2] = [LMode::Same, LMode::Other];

#[derive(Clone, Debug)]
pub enum Prog {
    /// encryption of message `msg` encoded at scale 2^lg on the first level
    Fresh { msg: usize, lg: i32, sym: bool },
    Un { op: UnOp, a: Arc<Prog> },
    Bin { op: BinOp, a: Arc<Prog>, b: Arc<Prog> },
    Pl { op: PlOp, a: Arc<Prog>, val: usize, sm: SMode, lm: LMode },
    AddMany { items: Vec<Arc<Prog>> },
}

impl Prog {
    pub fn to_json(&self) -> Value {
        match self {
            Prog::Fresh { msg, lg, sym } => json!({"fresh": msg, "lg": lg, "sym": sym}),
            Prog::Un { op, a } => json!({"un": format!("{:?}", op), "a": a.to_json()}),
            Prog::Bin { op, a, b } => json!({"bin": format!("{:?}", op), "a": a.to_json(), "b": b.to_json()}),
            Prog::Pl { op, a, val, sm, lm } => json!({"pl": format!("{:?}", op), "a": a.to_json(), "val": val, "sm": format!("{:?}", sm), "lm": format!("{:?}", lm)}),
            Prog::AddMany { items } => json!({"add_many": items.iter().map(|i| i.to_json()).collect::<Vec<_>>()}),
        }
    }
    pub fn from_json(v: &Value) -> Result<Arc<Prog>, String> {
        let sub = |k: &str| Prog::from_json(&v[k]);
        if let Some(m) = v.get("fresh") {
            return Ok(Arc::new(Prog::Fresh { msg: m.as_u64().ok_or("fresh")? as usize, lg: v["lg"].as_i64().ok_or("lg")? as i32, sym: v["sym"].as_bool().unwrap_or(false) }));
        }
        if let Some(o) = v.get("un").and_then(|o| o.as_str()) {
            let op = UNOPS.iter().find(|u| format!("{:?}", u) == o).ok_or("unop")?;
            return Ok(Arc::new(Prog::Un { op: *op, a: sub("a")? }));
        }
        if let Some(o) = v.get("bin").and_then(|o| o.as_str()) {
            let op = BINOPS.iter().find(|u| format!("{:?}", u) == o).ok_or("binop")?;
            return Ok(Arc::new(Prog::Bin { op: *op, a: sub("a")?, b: sub("b")? }));
        }
        if let Some(o) = v.get("pl").and_then(|o| o.as_str()) {
            let op = PLOPS.iter().find(|u| format!("{:?}", u) == o).ok_or("plop")?;
            let sm = SMODES.iter().find(|u| Some(format!("{:?}", u).as_str()) == v["sm"].as_str()).ok_or("sm")?;
            let lm = LMODES.iter().find(|u| Some(format!("{:?}", u).as_str()) == v["lm"].as_str()).ok_or("lm")?;
            return Ok(Arc::new(Prog::Pl { op: *op, a: sub("a")?, val: v["val"].as_u64().ok_or("val")? as usize, sm: *sm, lm: *lm }));
        }
        if let Some(items) = v.get("add_many").and_then(|o| o.as_array()) {
            let items: Result<Vec<_>, _> = items.iter().map(Prog::from_json).collect();
            return Ok(Arc::new(Prog::AddMany { items: items? }));
        }
        Err(format!("cannot parse program {v}"))
    }
    pub fn depth(&self) -> usize {
        match self {
            Prog::Fresh { .. } => 0,
            Prog::Un { a, .. } | Prog::Pl { a, .. } => 1 + a.depth(),
            Prog::Bin { a, b, .. } => 1 + a.depth().max(b.depth()),
            Prog::AddMany { items } => 1 + items.iter().map(|i| i.depth()).max().unwrap_or(0),
        }
    }
}

#[derive(Clone)]
pub struct St {
    pub ct: Ciphertext,
    /// shadow: the slot vector the program evaluates to
    pub z: Vec<C64>,
    /// the scale the bookkeeping must show
    pub scale: f64,
    /// a-priori absolute error bound, slot domain
    pub eps: f64,
    /// max |z_j|
    pub mag: f64,
    pub prog: Arc<Prog>,
}

#[derive(Clone, Copy, Debug, PartialEq, Eq, Hash)]
pub struct Meta {
    pub level: usize,
    pub size: usize,
    pub ntt: bool,
    pub scale_bits: u64,
}

/// abstract key of phase B
#[derive(Clone, Copy, Debug, PartialEq, Eq, Hash, PartialOrd, Ord)]
pub struct AKey {
    pub level: usize,
    pub size: usize,
    pub ntt: bool,
    /// floor(log2(scale) / width), clamped
    pub sclass: i32,
}

pub fn scale_class(s: f64, width: f64) -> i32 {
    if !(s > 0.0) || !s.is_finite() {
        return i32::MIN;
    }
    // everything below 2^-40 is one class: such scales only arise by rescaling a scale far below the
    // dropped prime and behave alike
    ((s.log2().max(-40.0) / width).floor() as i32).min(64)
}

/// What the model predicts for the result of an accepted operation.
#[derive(Clone)]
pub struct Out {
    pub level: usize,
    pub size: usize,
    pub ntt: bool,
    pub scale: f64,
    pub z: Vec<C64>,
    pub eps: f64,
}

pub enum Pred {
    /// well-typed: must be computed
    Accept(Out),
    /// ill-typed: must be refused
    Refuse(&'static str),
    /// outside the statement (scales one unit in the last place apart, plain operand of another
    /// level): both behaviours admitted, a computed result must still be right
    Either(Out, &'static str),
}

#[derive(Clone, Copy)]
pub struct Oracles {
    /// the three API forms byte-identical, operands untouched
    pub forms: bool,
    /// decode(decrypt) against the shadow
    pub value: bool,
}

pub struct Dis {
    pub class: &'static str, // accept | refusal | scale | meta | valid | value | forms
    pub key: String,
    pub expected: String,
    pub observed: String,
}

#[derive(Default)]
pub struct Stats {
    pub judged: AtomicU64,
    pub sharp: AtomicU64,
    pub meaningful: AtomicU64,
    pub wrap_unjudged: AtomicU64,
    pub either_accepted: AtomicU64,
    pub either_refused: AtomicU64,
    pub operand_unavailable: AtomicU64,
    pub refusals: std::sync::Mutex<std::collections::BTreeMap<String, u64>>,
}

/// "Scales agree" as the statement means it: equal up to a relative epsilon (one unit in the last
/// place). The library's helper `are_close_f64` is the same test for values above 1 but floors the
/// reference magnitude at 1.0, i.e. it degenerates to an absolute tolerance of 2^-52 below 1.
pub fn close_f64(a: f64, b: f64) -> bool {
    (a - b).abs() < f64::EPSILON * a.abs().max(b.abs())
}

#[derive(Clone, Copy, PartialEq, Eq, Debug)]
pub enum ScRel {
    Equal,
    Border,
    Differ,
}
pub fn screl(a: f64, b: f64) -> ScRel {
    if a.to_bits() == b.to_bits() {
        ScRel::Equal
    } else if close_f64(a, b) {
        ScRel::Border
    } else {
        ScRel::Differ
    }
}

/// Reason recorded for a refusal of differing scales; pairs below 1 that are closer than 2^-52 in
/// absolute terms get their own signature (they are exactly the pairs an absolute-epsilon test lets through).
pub fn differ_reason(a: f64, b: f64) -> &'static str {
    if a.abs().max(b.abs()) < 1.0 && (a - b).abs() < f64::EPSILON {
        "scales-differ-below-1"
    } else {
        "scales-differ"
    }
}

/// The bound the library places on a scale at a level with `bits` total coefficient modulus bits:
/// positive and trunc(log2(scale)) < bits.
pub fn scale_fits(s: f64, bits: usize) -> bool {
    !(s <= 0.0 || (s.log2() as isize) >= bits as isize) && !s.is_nan()
}

pub struct Sys {
    pub spec: ParamSpec,
    pub fam: Noise,
    pub kit: Kit,
    pub encoder: CKKSEncoder,
    pub seed: u64,
    pub levels: Vec<ParmsID>,
    pub moduli: Vec<Vec<u64>>,
    pub qbits: Vec<usize>,
    /// Q_level / 2 as f64
    pub qhalf: Vec<f64>,
    pub qwords: Vec<Vec<u64>>,
    pub special: u64,
    pub relin1: Option<RelinKeys>,
    pub relin_full: Option<RelinKeys>,
    pub msgs: Vec<Vec<C64>>,
    pub pvals: Vec<Vec<C64>>,
    /// destinations that already hold some other valid ciphertext (forms oracle)
    pub dirty: Vec<Ciphertext>,
    /// width (in bits) of a scale class of the abstract key
    pub sclass_width: f64,
    pub stats: Stats,
}

fn cmax(v: &[C64]) -> f64 {
    v.iter().map(|c| c.norm()).fold(0.0, f64::max)
}

const FP: f64 = 1.0 / (1u64 << 48) as f64; // generous double-precision slack

impl Sys {
    pub fn new(spec: &ParamSpec, fam: Noise, seed: u64) -> Result<Sys, String> {
        assert!(spec.scheme == Scheme::CKKS);
        assert!(matches!(fam, Noise::Real | Noise::Zero));
        // secret key: real ternary in both families; errors of the public / relinearization keys
        // follow the family (Zero: noiseless keys)
        env(seed, h64(&("e2c-kit", spec, fam)), NoiseMode::Real, fam.mode());
        let kit = Kit::new(spec)?;
        let levels = kit.levels();
        if levels.is_empty() {
            return Err("no data level".into());
        }
        let moduli: Vec<Vec<u64>> = levels.iter().map(|l| kit.moduli_at(l)).collect();
        let qs: Vec<BigU> = moduli.iter().map(|m| BigU::product(m)).collect();
        let qbits = qs.iter().map(|q| q.bits()).collect();
        let qhalf = qs.iter().map(|q| q.to_f64() / 2.0).collect();
        let qwords = qs.iter().map(|q| q.0.clone()).collect();
        let (relin1, relin_full) = if kit.ctx.using_keyswitching() {
            (Some(kit.keygen.create_relin_keys(false)), Some(kit.keygen.verif_create_relin_keys(14, false)))
        } else {
            (None, None)
        };
        let special = *kit.moduli_at(kit.ctx.key_parms_id()).last().unwrap();
        let encoder = CKKSEncoder::new(kit.ctx.clone());
        let slots = spec.n / 2;
        let rep = |pat: &[C64]| -> Vec<C64> { (0..slots).map(|i| pat[i % pat.len()]).collect() };
        let c = |re: f64, im: f64| C64::new(re, im);
        let msgs = vec![
            rep(&[c(0.0, 0.0)]),
            rep(&[c(1.0, 0.0)]),
            rep(&[c(-1.5, 0.0), c(2.0, 0.0)]),
            rep(&[c(0.0, 1.0), c(0.0, -1.0)]),
            rep(&[c(1024.0, 0.0), c(0.125, 0.0)]),
            rep(&[c(3.0, -4.0), c(-0.25, 128.0), c(0.015625, -1.0), c(-7.5, 0.0)]),
        ];
        let pvals = vec![msgs[1].clone(), msgs[2].clone(), msgs[3].clone(), msgs[4].clone(), msgs[0].clone()];
        let dirty = crate::he::dirty_destinations(&kit);
        Ok(Sys { spec: spec.clone(), fam, kit, encoder, seed, levels, moduli, qbits, qhalf, qwords, special, relin1, relin_full, msgs, pvals, dirty, sclass_width: 10.0, stats: Stats::default() })
    }

    pub fn n(&self) -> f64 {
        self.spec.n as f64
    }
    pub fn level_of(&self, id: &ParmsID) -> Option<usize> {
        self.levels.iter().position(|l| l == id)
    }
    pub fn meta(&self, ct: &Ciphertext) -> Meta {
        Meta { level: self.level_of(ct.parms_id()).unwrap_or(usize::MAX), size: ct.size(), ntt: ct.is_ntt_form(), scale_bits: ct.scale().to_bits() }
    }
    pub fn akey(&self, ct: &Ciphertext) -> AKey {
        AKey { level: self.level_of(ct.parms_id()).unwrap_or(usize::MAX), size: ct.size(), ntt: ct.is_ntt_form(), sclass: scale_class(ct.scale(), self.sclass_width) }
    }
    pub fn fits(&self, s: f64, level: usize) -> bool {
        scale_fits(s, self.qbits[level])
    }

    // ---------------------------------------------------------------------------------------
    // error terms (coefficient domain) and their slot-domain image
    // ---------------------------------------------------------------------------------------

    fn e_fresh(&self) -> f64 {
        let n = self.n();
        match self.fam {
            Noise::Zero => (1.0 + n) / 2.0 + 1.0,
            _ => 21.0 * (2.0 * n + 1.0) + (1.0 + n) / 2.0 + 1.0,
        }
    }
    fn e_ks(&self, level: usize) -> f64 {
        let n = self.n();
        let round = (1.0 + n) / 2.0 + 1.0;
        match self.fam {
            Noise::Zero => round,
            _ => {
                let k = self.moduli[level].len() as f64;
                let qmax = *self.moduli[level].iter().max().unwrap() as f64;
                k * n * 21.0 * qmax / self.special as f64 + round
            }
        }
    }
    /// encoding error of values of magnitude `mag` at scale `s`, slot domain
    fn e_encode(&self, mag: f64, s: f64) -> f64 {
        self.n() * (0.5 + FP * s * mag) / s + FP * mag
    }
    fn slack(&self, mag: f64, eps: f64) -> f64 {
        FP * (mag + eps)
    }

    // ---------------------------------------------------------------------------------------
    // fresh encryptions and plain operands
    // ---------------------------------------------------------------------------------------

    /// Err(None): the encoder does not take this (value, scale) — outside the domain.
    pub fn fresh(&self, msg: usize, lg: i32, sym: bool) -> Result<St, Option<String>> {
        let tag = h64(&("e2c-fresh", &self.spec, msg, lg, sym));
        match self.fam {
            Noise::Zero => env(self.seed, tag, NoiseMode::Zero, NoiseMode::Zero),
            _ => env_real(self.seed, tag),
        }
        let s = 2f64.powi(lg);
        let z = self.msgs[msg].clone();
        let pt = match guard(|| self.encoder.encode_c64_array_new(&z, None, s)) {
            Ok(p) => p,
            Err(e) => {
                return if e.contains("too large") || e.contains("scale out of bounds") { Err(None) } else { Err(Some(e)) };
            }
        };
        let ct = guard(|| {
            if sym {
                let c = self.kit.enc.encrypt_symmetric_new(&pt);
                if c.contains_seed() { c.expand_seed(&self.kit.ctx) } else { c }
            } else {
                self.kit.enc.encrypt_new(&pt)
            }
        })
        .map_err(Some)?;
        let mag = cmax(&z);
        let eps = self.n() * self.e_fresh() / s + self.e_encode(mag, s);
        Ok(St { ct, z, scale: s, eps, mag, prog: Arc::new(Prog::Fresh { msg, lg, sym }) })
    }

    fn other_level(&self, level: usize) -> usize {
        if level == 0 { 1 } else { 0 }
    }

    /// (plaintext, its scale, its level); None when the encoder does not take the combination
    fn plain_operand(&self, a: &St, val: usize, sm: SMode, lm: LMode) -> Option<(Plaintext, f64, usize)> {
        let la = self.level_of(a.ct.parms_id())?;
        let lp = match lm {
            LMode::Same => la,
            LMode::Other => self.other_level(la),
        };
        if lp >= self.levels.len() {
            return None; // single data level: there is no other one
        }
        let sp = match sm {
            SMode::Match => a.ct.scale(),
            SMode::P10 => 2f64.powi(10),
            SMode::P20 => 2f64.powi(20),
            SMode::P30 => 2f64.powi(30),
        };
        let id = self.levels[lp];
        guard(|| self.encoder.encode_c64_array_new(&self.pvals[val], Some(id), sp)).ok().map(|p| (p, sp, lp))
    }

    // ---------------------------------------------------------------------------------------
    // the model
    // ---------------------------------------------------------------------------------------

    fn out_of(&self, a: &St) -> Out {
        let m = self.meta(&a.ct);
        Out { level: m.level, size: m.size, ntt: m.ntt, scale: a.scale, z: a.z.clone(), eps: a.eps }
    }

    fn mul_eps(&self, ma: f64, ea: f64, mb: f64, eb: f64) -> f64 {
        ma * eb + mb * ea + ea * eb + FP * (ma + ea) * (mb + eb)
    }

    pub fn predict_un(&self, op: UnOp, a: &St) -> Pred {
        let ma = self.meta(&a.ct);
        let mut o = self.out_of(a);
        match op {
            UnOp::Negate => {
                o.z = a.z.iter().map(|c| -c).collect();
                Pred::Accept(o)
            }
            UnOp::ToNtt => {
                if ma.ntt {
                    return Pred::Refuse("already-ntt");
                }
                o.ntt = true;
                Pred::Accept(o)
            }
            UnOp::FromNtt => {
                if !ma.ntt {
                    return Pred::Refuse("already-coef");
                }
                o.ntt = false;
                Pred::Accept(o)
            }
            UnOp::Square => {
                if !ma.ntt {
                    return Pred::Refuse("non-ntt");
                }
                if 2 * ma.size - 1 > 16 {
                    return Pred::Refuse("size-overflow");
                }
                o.scale = a.scale * a.scale;
                if !self.fits(o.scale, ma.level) {
                    return Pred::Refuse("scale-out-of-bounds");
                }
                o.size = 2 * ma.size - 1;
                o.z = a.z.iter().map(|c| c * c).collect();
                o.eps = self.mul_eps(a.mag, a.eps, a.mag, a.eps);
                Pred::Accept(o)
            }
            UnOp::Relin | UnOp::RelinFull => {
                let keys = if op == UnOp::Relin { 1 } else { 14 };
                if self.relin1.is_none() {
                    return Pred::Refuse("no-keys");
                }
                if ma.size == 2 {
                    // nothing to do: returned unchanged in either representation
                    return Pred::Accept(o);
                }
                if !ma.ntt {
                    return Pred::Refuse("non-ntt");
                }
                if ma.size - 2 > keys {
                    return Pred::Refuse("missing-key-power");
                }
                o.size = 2;
                o.eps = a.eps + (ma.size - 2) as f64 * self.n() * self.e_ks(ma.level) / a.scale + self.slack(a.mag, a.eps);
                Pred::Accept(o)
            }
            UnOp::Rescale => {
                if ma.level + 1 >= self.levels.len() {
                    return Pred::Refuse("last-level");
                }
                if !ma.ntt {
                    return Pred::Refuse("non-ntt");
                }
                let qlast = *self.moduli[ma.level].last().unwrap();
                o.scale = a.scale / qlast as f64;
                if !self.fits(o.scale, ma.level + 1) {
                    return Pred::Refuse("scale-out-of-bounds");
                }
                o.level = ma.level + 1;
                let n = self.n();
                let mut r = 0.0;
                let mut p = 0.5;
                for _ in 0..ma.size {
                    r += p;
                    p *= n;
                }
                o.eps = a.eps + 4.0 * FP * (a.mag + a.eps) + n * r / o.scale;
                Pred::Accept(o)
            }
            UnOp::ModSwitch => {
                if ma.level + 1 >= self.levels.len() {
                    return Pred::Refuse("last-level");
                }
                if !ma.ntt {
                    return Pred::Refuse("non-ntt");
                }
                if !self.fits(a.scale, ma.level + 1) {
                    return Pred::Refuse("scale-out-of-bounds");
                }
                o.level = ma.level + 1;
                Pred::Accept(o)
            }
        }
    }

    fn add_model(&self, first: &Out, mb: Meta, b: &St, sub: bool) -> Pred {
        if first.level != mb.level {
            return Pred::Refuse("levels-differ");
        }
        if first.ntt != mb.ntt {
            return Pred::Refuse("representations-differ");
        }
        let rel = screl(first.scale, b.scale);
        if rel == ScRel::Differ {
            return Pred::Refuse(differ_reason(first.scale, b.scale));
        }
        let mut o = first.clone();
        o.size = first.size.max(mb.size);
        o.z = first.z.iter().zip(&b.z).map(|(x, y)| if sub { x - y } else { x + y }).collect();
        o.eps = first.eps + b.eps + 4.0 * FP * (cmax(&first.z) + b.mag + first.eps + b.eps);
        if rel == ScRel::Border {
            Pred::Either(o, "scales-one-ulp-apart")
        } else {
            Pred::Accept(o)
        }
    }

    pub fn predict_bin(&self, op: BinOp, a: &St, b: &St) -> Pred {
        let (ma, mb) = (self.meta(&a.ct), self.meta(&b.ct));
        match op {
            BinOp::Add | BinOp::Sub => self.add_model(&self.out_of(a), mb, b, op == BinOp::Sub),
            BinOp::Mul => {
                if ma.level != mb.level {
                    return Pred::Refuse("levels-differ");
                }
                if !ma.ntt || !mb.ntt {
                    return Pred::Refuse("non-ntt");
                }
                if ma.size + mb.size - 1 > 16 {
                    return Pred::Refuse("size-overflow");
                }
                let mut o = self.out_of(a);
                o.scale = a.scale * b.scale;
                if !self.fits(o.scale, ma.level) {
                    return Pred::Refuse("scale-out-of-bounds");
                }
                o.size = ma.size + mb.size - 1;
                o.z = a.z.iter().zip(&b.z).map(|(x, y)| x * y).collect();
                o.eps = self.mul_eps(a.mag, a.eps, b.mag, b.eps);
                Pred::Accept(o)
            }
        }
    }

    pub fn predict_pl(&self, op: PlOp, a: &St, val: usize, sp: f64, lp: usize) -> Pred {
        let ma = self.meta(&a.ct);
        let pv = &self.pvals[val];
        let pm = cmax(pv);
        let pe = self.e_encode(pm, sp);
        let mut o = self.out_of(a);
        let level_note = if lp != ma.level { Some("plain-operand-of-another-level") } else { None };
        match op {
            PlOp::AddPlain | PlOp::SubPlain => {
                if !ma.ntt {
                    return Pred::Refuse("non-ntt");
                }
                let rel = screl(a.scale, sp);
                if rel == ScRel::Differ {
                    return Pred::Refuse(differ_reason(a.scale, sp));
                }
                o.z = a.z.iter().zip(pv).map(|(x, y)| if op == PlOp::SubPlain { x - y } else { x + y }).collect();
                o.eps = a.eps + pe + 4.0 * FP * (a.mag + pm + a.eps + pe);
                match (level_note, rel) {
                    (Some(n), _) => Pred::Either(o, n),
                    (None, ScRel::Border) => Pred::Either(o, "scales-one-ulp-apart"),
                    _ => Pred::Accept(o),
                }
            }
            PlOp::MulPlain => {
                o.scale = a.scale * sp;
                if !self.fits(o.scale, ma.level) {
                    return Pred::Refuse("scale-out-of-bounds");
                }
                o.z = a.z.iter().zip(pv).map(|(x, y)| x * y).collect();
                o.eps = self.mul_eps(a.mag, a.eps, pm, pe);
                match level_note {
                    Some(n) => Pred::Either(o, n),
                    None => Pred::Accept(o),
                }
            }
        }
    }

    // ---------------------------------------------------------------------------------------
    // running the real operations in their three forms
    // ---------------------------------------------------------------------------------------

    #[allow(clippy::too_many_arguments)]
    fn three_forms(
        &self,
        what: &str,
        operands: &[&Ciphertext],
        forms: bool,
        f_inplace: &dyn Fn() -> Ciphertext,
        f_dest: &dyn Fn(Ciphertext) -> Ciphertext,
        f_new: &dyn Fn() -> Ciphertext,
        dis: &mut Vec<Dis>,
    ) -> Result<Ciphertext, String> {
        let before: Vec<u64> = operands.iter().map(|c| ct_fingerprint(c)).collect();
        let r1 = guard(f_inplace);
        if forms {
            let r2 = guard(|| f_dest(Ciphertext::new()));
            let r3 = guard(f_new);
            let after: Vec<u64> = operands.iter().map(|c| ct_fingerprint(c)).collect();
            if before != after {
                dis.push(Dis { class: "forms", key: format!("forms:{what}:operand-modified"), expected: "read-only operands unchanged".into(), observed: "operand bytes/metadata changed".into() });
            }
            let fp = |r: &Result<Ciphertext, String>| r.as_ref().map(ct_fingerprint).map_err(|e| panic_class(e));
            let (a, b, c) = (fp(&r1), fp(&r2), fp(&r3));
            if a.is_ok() != b.is_ok() || a.is_ok() != c.is_ok() {
                dis.push(Dis {
                    class: "forms",
                    key: format!("forms:{what}:acceptance-differs"),
                    expected: "in-place, destination and _new forms accept/refuse alike".into(),
                    observed: format!("inplace={:?} dest={:?} new={:?}", a.is_ok(), b.is_ok(), c.is_ok()),
                });
            } else if a.is_ok() && (a == b && a == c) {
                // the destination form once more, into destinations that already hold other valid ciphertexts
                for (k, d0) in self.dirty.iter().enumerate() {
                    let rd = guard(|| f_dest(d0.clone()));
                    if fp(&rd) != b {
                        dis.push(Dis {
                            class: "forms",
                            key: format!("forms:{what}:dirty-destination-differs"),
                            expected: format!("the result does not depend on what the destination held (destination #{k} held: {}); fresh destination gives: {}", ct_meta(d0), ct_meta(r2.as_ref().unwrap())),
                            observed: match &rd {
                                Ok(c) => ct_meta(c),
                                Err(e) => format!("refused: {e}"),
                            },
                        });
                        break;
                    }
                }
            } else if a.is_ok() && (a != b || a != c) {
                dis.push(Dis {
                    class: "forms",
                    key: format!("forms:{what}:bytes-differ"),
                    expected: "bit-identical results of the three forms".into(),
                    observed: format!("inplace: {} | dest: {} | new: {}", ct_meta(r1.as_ref().unwrap()), ct_meta(r2.as_ref().unwrap()), ct_meta(r3.as_ref().unwrap())),
                });
            }
        }
        r1
    }

    fn exec_un(&self, op: UnOp, a: &Ciphertext, forms: bool, dis: &mut Vec<Dis>) -> Result<Ciphertext, String> {
        let ev = &self.kit.eval;
        let what = format!("{:?}", op);
        macro_rules! tri {
            ($inpl:expr, $dest:expr, $new:expr) => {
                self.three_forms(
                    &what,
                    &[a],
                    forms,
                    &|| {
                        let mut c = a.clone();
                        $inpl(&mut c);
                        c
                    },
                    &|mut d: Ciphertext| {
                        $dest(&mut d);
                        d
                    },
                    &|| $new,
                    dis,
                )
            };
        }
        match op {
            UnOp::Negate => tri!(|c: &mut Ciphertext| ev.negate_inplace(c), |d: &mut Ciphertext| ev.negate(a, d), ev.negate_new(a)),
            UnOp::Square => tri!(|c: &mut Ciphertext| ev.square_inplace(c), |d: &mut Ciphertext| ev.square(a, d), ev.square_new(a)),
            UnOp::ToNtt => tri!(|c: &mut Ciphertext| ev.transform_to_ntt_inplace(c), |d: &mut Ciphertext| ev.transform_to_ntt(a, d), ev.transform_to_ntt_new(a)),
            UnOp::FromNtt => tri!(|c: &mut Ciphertext| ev.transform_from_ntt_inplace(c), |d: &mut Ciphertext| ev.transform_from_ntt(a, d), ev.transform_from_ntt_new(a)),
            UnOp::ModSwitch => tri!(|c: &mut Ciphertext| ev.mod_switch_to_next_inplace(c), |d: &mut Ciphertext| ev.mod_switch_to_next(a, d), ev.mod_switch_to_next_new(a)),
            UnOp::Rescale => tri!(|c: &mut Ciphertext| ev.rescale_to_next_inplace(c), |d: &mut Ciphertext| ev.rescale_to_next(a, d), ev.rescale_to_next_new(a)),
            UnOp::Relin | UnOp::RelinFull => {
                let rk = if op == UnOp::Relin { self.relin1.as_ref() } else { self.relin_full.as_ref() };
                match rk {
                    None => Err("no relinearization keys".into()),
                    Some(rk) => tri!(|c: &mut Ciphertext| ev.relinearize_inplace(c, rk), |d: &mut Ciphertext| ev.relinearize(a, rk, d), ev.relinearize_new(a, rk)),
                }
            }
        }
    }

    fn exec_bin(&self, op: BinOp, a: &Ciphertext, b: &Ciphertext, forms: bool, dis: &mut Vec<Dis>) -> Result<Ciphertext, String> {
        let ev = &self.kit.eval;
        let what = format!("{:?}", op);
        macro_rules! tri {
            ($inpl:ident, $dest:ident, $new:ident) => {
                self.three_forms(
                    &what,
                    &[a, b],
                    forms,
                    &|| {
                        let mut c = a.clone();
                        ev.$inpl(&mut c, b);
                        c
                    },
                    &|mut d: Ciphertext| {
                        ev.$dest(a, b, &mut d);
                        d
                    },
                    &|| ev.$new(a, b),
                    dis,
                )
            };
        }
        match op {
            BinOp::Add => tri!(add_inplace, add, add_new),
            BinOp::Sub => tri!(sub_inplace, sub, sub_new),
            BinOp::Mul => tri!(multiply_inplace, multiply, multiply_new),
        }
    }

    fn exec_pl(&self, op: PlOp, a: &Ciphertext, p: &Plaintext, forms: bool, dis: &mut Vec<Dis>) -> Result<Ciphertext, String> {
        let ev = &self.kit.eval;
        let what = format!("{:?}", op);
        let pf = pt_fingerprint(p);
        macro_rules! tri {
            ($inpl:ident, $dest:ident, $new:ident) => {
                self.three_forms(
                    &what,
                    &[a],
                    forms,
                    &|| {
                        let mut c = a.clone();
                        ev.$inpl(&mut c, p);
                        c
                    },
                    &|mut d: Ciphertext| {
                        ev.$dest(a, p, &mut d);
                        d
                    },
                    &|| ev.$new(a, p),
                    dis,
                )
            };
        }
        let r = match op {
            PlOp::AddPlain => tri!(add_plain_inplace, add_plain, add_plain_new),
            PlOp::SubPlain => tri!(sub_plain_inplace, sub_plain, sub_plain_new),
            PlOp::MulPlain => tri!(multiply_plain_inplace, multiply_plain, multiply_plain_new),
        };
        if forms && pt_fingerprint(p) != pf {
            dis.push(Dis { class: "forms", key: format!("forms:{what}:plain-operand-modified"), expected: "plaintext operand unchanged".into(), observed: "changed".into() });
        }
        r
    }

    // ---------------------------------------------------------------------------------------
    // decoding oracle
    // ---------------------------------------------------------------------------------------

    pub fn decode(&self, ct: &Ciphertext) -> Result<Vec<C64>, String> {
        guard(|| {
            let c = if ct.is_ntt_form() { ct.clone() } else { self.kit.eval.transform_to_ntt_new(ct) };
            self.encoder.decode_new(&self.kit.dec.decrypt_new(&c))
        })
    }

    /// Double-precision error of the library's decoder for coefficients of magnitude <= cm at
    /// this level, slot domain. The decoder adds word-wise differences to the modulus for
    /// negative values; when the subtraction borrows beyond the words of the value the terms
    /// cancel at magnitude 2^(64 w).
    fn decoder_tolerance(&self, level: usize, s: f64, cm: f64) -> f64 {
        let words = &self.qwords[level];
        let k = words.len();
        let w0 = (((cm + 1.0).log2() / 64.0).ceil() as usize).max(1);
        let mut extra = 0.0;
        if w0 < k {
            let low = BigU::from_limbs(&words[..w0]).to_f64();
            if low <= cm * 1.0001 {
                if words[w0] == 0 {
                    return f64::INFINITY;
                }
                extra = 2f64.powi(64 * w0 as i32 + 1);
            }
        }
        self.n() * 4.0 * FP * (3.0 * cm + extra) / s
    }

    /// Some(Err(..)) = value violation, Some(Ok(class)) judged, None = not judged (wrap possible)
    fn judge(&self, st: &St, level: usize) -> Option<Result<(), (String, String)>> {
        let cm = st.scale * (st.mag + st.eps);
        if !(cm.is_finite() && cm * 1.0001 < self.qhalf[level]) {
            self.stats.wrap_unjudged.fetch_add(1, Relaxed);
            return None;
        }
        let tol = self.decoder_tolerance(level, st.scale, cm);
        let bound = st.eps + tol;
        if !bound.is_finite() {
            self.stats.wrap_unjudged.fetch_add(1, Relaxed);
            return None;
        }
        self.stats.judged.fetch_add(1, Relaxed);
        let unit = st.mag.max(1.0);
        if bound <= unit / (1u64 << 20) as f64 {
            self.stats.sharp.fetch_add(1, Relaxed);
        }
        if bound <= unit / 16.0 {
            self.stats.meaningful.fetch_add(1, Relaxed);
        }
        Some(match self.decode(&st.ct) {
            Err(e) => Err(("decrypt/decode of a valid result".into(), e)),
            Ok(d) => {
                let err = d.iter().zip(&st.z).map(|(x, y)| (x - y).norm()).fold(0.0, f64::max);
                if d.len() != st.z.len() || !(err <= bound) {
                    Err((format!("{:?} within {:e} (error bound {:e} + decoder {:e}; scale 2^{:.3}, level {level})", st.z, bound, st.eps, tol, st.scale.log2()), format!("{:?} (max deviation {:e})", d, err)))
                } else {
                    Ok(())
                }
            }
        })
    }

    // ---------------------------------------------------------------------------------------
    // conformance of one result
    // ---------------------------------------------------------------------------------------

    fn shape(&self, metas: &[Meta]) -> String {
        let sizes: Vec<String> = metas.iter().map(|m| m.size.to_string()).collect();
        let ntt: Vec<&str> = metas.iter().map(|m| if m.ntt { "ntt" } else { "coef" }).collect();
        let lv = if metas.windows(2).all(|w| w[0].level == w[1].level) { "same" } else { "differ" };
        let sc = if metas.len() < 2 {
            ""
        } else if metas.windows(2).all(|w| w[0].scale_bits == w[1].scale_bits) {
            " scales=eq"
        } else {
            " scales=ne"
        };
        format!("sizes={} levels={} {}{}", sizes.join("x"), lv, ntt.join("/"), sc)
    }

    fn note_refusal(&self, opname: &str, why: &str) {
        let mut r = self.stats.refusals.lock().unwrap();
        *r.entry(format!("{opname}:{why}")).or_insert(0) += 1;
    }

    #[allow(clippy::too_many_arguments)]
    fn conform(&self, opname: &str, operand_metas: &[Meta], pred: Pred, result: Result<Ciphertext, String>, prog: Arc<Prog>, or: Oracles, dis: &mut Vec<Dis>) -> Option<St> {
        let shape = self.shape(operand_metas);
        let operand_scales: Vec<String> = operand_metas.iter().map(|m| format!("2^{:.6}", f64::from_bits(m.scale_bits).log2())).collect();
        let (out, lenient) = match pred {
            Pred::Refuse(why) => {
                match result {
                    Err(_) => self.note_refusal(opname, why),
                    Ok(c) => dis.push(Dis {
                        class: "refusal",
                        // one signature per (operation, reason): the operand shape does not matter for a missing check
                        key: format!("refusal:{}:{why}:accepted", opname.split('[').next().unwrap_or(opname)),
                        expected: format!("refused ({why}); operands: {shape}, scales {:?}", operand_scales),
                        observed: format!("computed a result: {} level={:?}", ct_meta(&c), self.level_of(c.parms_id())),
                    }),
                }
                return None;
            }
            Pred::Accept(o) => (o, None),
            Pred::Either(o, why) => (o, Some(why)),
        };
        let c = match result {
            Ok(c) => c,
            Err(e) => {
                match lenient {
                    Some(why) => {
                        self.stats.either_refused.fetch_add(1, Relaxed);
                        self.note_refusal(opname, why);
                    }
                    None => dis.push(Dis { class: "accept", key: format!("accept:{opname}:{shape}:{}", panic_class(&e)), expected: "well-typed operation is computed".into(), observed: e }),
                }
                return None;
            }
        };
        if lenient.is_some() {
            self.stats.either_accepted.fetch_add(1, Relaxed);
        }
        let om = self.meta(&c);
        if om.scale_bits != out.scale.to_bits() {
            dis.push(Dis {
                class: "scale",
                key: format!("scale:{opname}"),
                expected: format!("scale {:e} (bits {:016x}, 2^{:.6})", out.scale, out.scale.to_bits(), out.scale.log2()),
                observed: format!("scale {:e} (bits {:016x}, 2^{:.6})", c.scale(), om.scale_bits, c.scale().log2()),
            });
        }
        if om.level != out.level || om.size != out.size || om.ntt != out.ntt || c.correction_factor() != 1 {
            dis.push(Dis {
                class: "meta",
                key: format!("meta:{opname}:{shape}"),
                expected: format!("level={} size={} ntt={} cf=1", out.level, out.size, out.ntt),
                observed: format!("level={} size={} ntt={} cf={}", om.level as isize, om.size, om.ntt, c.correction_factor()),
            });
        }
        {
            use heathcliff::ValCheck;
            let valid = guard(|| c.is_valid_for(&self.kit.ctx)).unwrap_or(false);
            let buf_ok = om.level != usize::MAX && c.data().len() == c.size() * self.spec.n * self.moduli[om.level.min(self.moduli.len() - 1)].len();
            if !valid || !buf_ok {
                dis.push(Dis { class: "valid", key: format!("valid:{opname}:{shape}"), expected: "result is valid for the context".into(), observed: format!("is_valid_for={valid} buffer_ok={buf_ok} {}", ct_meta(&c)) });
            }
        }
        if om.level == usize::MAX || om.level != out.level || om.size != out.size || om.ntt != out.ntt {
            // a result with wrong bookkeeping is not propagated: later transitions would only repeat the alarm
            return None;
        }
        let scale_ok = om.scale_bits == out.scale.to_bits();
        let mag = cmax(&out.z);
        let st = St { ct: c, z: out.z, scale: out.scale, eps: out.eps, mag, prog };
        // the value is judged even when the recorded scale is wrong (the decoder divides by the recorded
        // scale, so the deviation shows there too, independently of the scale oracle)
        if or.value {
            if let Some(Err((exp, obs))) = self.judge(&st, om.level) {
                dis.push(Dis { class: "value", key: format!("value:{opname}:{shape}:wrong"), expected: exp, observed: obs });
                return None;
            }
        }
        if !scale_ok {
            return None;
        }
        Some(st)
    }

    // ---------------------------------------------------------------------------------------
    // transitions
    // ---------------------------------------------------------------------------------------

    pub fn step_fresh(&self, msg: usize, lg: i32, sym: bool, or: Oracles, dis: &mut Vec<Dis>) -> Option<St> {
        match self.fresh(msg, lg, sym) {
            Err(None) => {
                self.stats.operand_unavailable.fetch_add(1, Relaxed);
                None
            }
            Err(Some(e)) => {
                dis.push(Dis { class: "accept", key: format!("accept:Fresh:{}", panic_class(&e)), expected: "encoding and encryption of an encodable slot vector".into(), observed: e });
                None
            }
            Ok(st) => {
                let m = self.meta(&st.ct);
                let out = Out { level: 0, size: 2, ntt: true, scale: st.scale, z: st.z.clone(), eps: st.eps };
                self.conform("Fresh", &[m], Pred::Accept(out), Ok(st.ct.clone()), st.prog.clone(), or, dis)
            }
        }
    }

    pub fn step_un(&self, op: UnOp, a: &St, or: Oracles, dis: &mut Vec<Dis>) -> Option<St> {
        let pred = self.predict_un(op, a);
        let res = self.exec_un(op, &a.ct, or.forms, dis);
        let prog = Arc::new(Prog::Un { op, a: a.prog.clone() });
        self.conform(&format!("{:?}", op), &[self.meta(&a.ct)], pred, res, prog, or, dis)
    }

    pub fn step_bin(&self, op: BinOp, a: &St, b: &St, or: Oracles, dis: &mut Vec<Dis>) -> Option<St> {
        let pred = self.predict_bin(op, a, b);
        let res = self.exec_bin(op, &a.ct, &b.ct, or.forms, dis);
        let prog = Arc::new(Prog::Bin { op, a: a.prog.clone(), b: b.prog.clone() });
        self.conform(&format!("{:?}", op), &[self.meta(&a.ct), self.meta(&b.ct)], pred, res, prog, or, dis)
    }

    pub fn step_pl(&self, op: PlOp, a: &St, val: usize, sm: SMode, lm: LMode, or: Oracles, dis: &mut Vec<Dis>) -> Option<St> {
        if val >= self.pvals.len() {
            return None;
        }
        let Some((pt, sp, lp)) = self.plain_operand(a, val, sm, lm) else {
            self.stats.operand_unavailable.fetch_add(1, Relaxed);
            return None;
        };
        let pred = self.predict_pl(op, a, val, sp, lp);
        let res = self.exec_pl(op, &a.ct, &pt, or.forms, dis);
        let prog = Arc::new(Prog::Pl { op, a: a.prog.clone(), val, sm, lm });
        let la = self.level_of(a.ct.parms_id()).unwrap_or(usize::MAX);
        let rel = match screl(a.ct.scale(), sp) {
            ScRel::Equal => "eq",
            ScRel::Border => "border",
            ScRel::Differ => "ne",
        };
        let lvl = if lp == la { "same" } else if lp < la { "higher" } else { "lower" };
        self.conform(&format!("{:?}[scale={rel},level={lvl}]", op), &[self.meta(&a.ct)], pred, res, prog, or, dis)
    }

    pub fn step_add_many(&self, items: &[&St], or: Oracles, dis: &mut Vec<Dis>) -> Option<St> {
        let metas: Vec<Meta> = items.iter().map(|s| self.meta(&s.ct)).collect();
        // fold of additions, left to right
        let mut acc = self.out_of(items[0]);
        let mut verdict: u8 = 0; // 0 accept, 1 either, 2 refuse
        let mut why = "";
        for (s, m) in items[1..].iter().zip(&metas[1..]) {
            match self.add_model(&acc, *m, s, false) {
                Pred::Accept(o) => acc = o,
                Pred::Either(o, w) => {
                    acc = o;
                    if verdict == 0 {
                        verdict = 1;
                        why = w;
                    }
                }
                Pred::Refuse(w) => {
                    verdict = 2;
                    why = w;
                    break;
                }
            }
        }
        let pred = match verdict {
            0 => Pred::Accept(acc),
            1 => Pred::Either(acc, why),
            _ => Pred::Refuse(why),
        };
        let cts: Vec<Ciphertext> = items.iter().map(|s| s.ct.clone()).collect();
        let res = guard(|| self.kit.eval.add_many_new(&cts));
        if or.forms {
            let r2 = guard(|| {
                let mut d = Ciphertext::new();
                self.kit.eval.add_many(&cts, &mut d);
                d
            });
            if res.as_ref().map(ct_fingerprint).ok() != r2.as_ref().map(ct_fingerprint).ok() {
                dis.push(Dis { class: "forms", key: "forms:AddMany:bytes-differ".into(), expected: "add_many and add_many_new agree".into(), observed: "differ".into() });
            }
        }
        let prog = Arc::new(Prog::AddMany { items: items.iter().map(|s| s.prog.clone()).collect() });
        self.conform("AddMany", &metas, pred, res, prog, or, dis)
    }

    /// Re-execute a program bottom-up with all oracles (replay).
    pub fn run_prog(&self, p: &Prog, or: Oracles, dis: &mut Vec<Dis>) -> Option<St> {
        match p {
            Prog::Fresh { msg, lg, sym } => {
                if *msg >= self.msgs.len() {
                    return None;
                }
                self.step_fresh(*msg, *lg, *sym, or, dis)
            }
            Prog::Un { op, a } => {
                let a = self.run_prog(a, or, dis)?;
                self.step_un(*op, &a, or, dis)
            }
            Prog::Bin { op, a, b } => {
                let a = self.run_prog(a, or, dis)?;
                let b = self.run_prog(b, or, dis)?;
                self.step_bin(*op, &a, &b, or, dis)
            }
            Prog::Pl { op, a, val, sm, lm } => {
                let a = self.run_prog(a, or, dis)?;
                self.step_pl(*op, &a, *val, *sm, *lm, or, dis)
            }
            Prog::AddMany { items } => {
                let sts: Option<Vec<St>> = items.iter().map(|i| self.run_prog(i, or, dis)).collect();
                let sts = sts?;
                if sts.is_empty() {
                    return None;
                }
                let refs: Vec<&St> = sts.iter().collect();
                self.step_add_many(&refs, or, dis)
            }
        }
    }
}

// ---------------------------------------------------------------------------------------------
// exploration driver
// ---------------------------------------------------------------------------------------------

const CHUNK: usize = 100_000;
const MAX_ROUND: usize = 8_000_000;

#[derive(Clone)]
enum Tr {
    Un(UnOp, usize),
    Bin(BinOp, usize, usize),
    Pl(PlOp, usize, usize, SMode, LMode),
    AddMany(Vec<usize>),
}

pub struct E2cSection {
    pub name: String,
    pub spec: ParamSpec,
    pub fam: Noise,
    pub oracles: Oracles,
    /// which classes of disagreement are judged
    pub judged: Vec<&'static str>,
    pub seed: u64,
    /// message indices of R0
    pub msgs: Vec<usize>,
    /// log2 of the fresh scales of R0
    pub lgs: Vec<i32>,
    /// add fresh encryptions at scale 2^(log Q_0 - 2) (messages 0 and 1)
    pub big_scale: bool,
    /// concrete closure depth (1 or 2)
    pub depth: usize,
    pub abstract_closure: bool,
    /// width of the scale classes of the abstract key, bits
    pub sclass_width: f64,
    /// position among the E2c sections of the run and their number: the section may use
    /// remaining budget / (count - index)
    pub index: usize,
    pub count: usize,
}

/// plain-operand alphabet of one operation on one state
fn pl_alphabet(npv: usize) -> Vec<(usize, SMode, LMode)> {
    let mut v = vec![];
    for val in 0..npv {
        for sm in SMODES {
            v.push((val, sm, LMode::Same));
        }
    }
    for sm in SMODES {
        v.push((0, sm, LMode::Other));
    }
    v
}

impl E2cSection {
    fn exec(&self, sys: &Sys, states: &[St], tr: &Tr, dis: &mut Vec<Dis>) -> Option<St> {
        let or = self.oracles;
        match tr {
            Tr::Un(op, a) => sys.step_un(*op, &states[*a], or, dis),
            Tr::Bin(op, a, b) => sys.step_bin(*op, &states[*a], &states[*b], or, dis),
            Tr::Pl(op, a, v, sm, lm) => sys.step_pl(*op, &states[*a], *v, *sm, *lm, or, dis),
            Tr::AddMany(v) => sys.step_add_many(&v.iter().map(|i| &states[*i]).collect::<Vec<_>>(), or, dis),
        }
    }

    fn case_json(&self, prog: Value) -> Value {
        json!({"spec": self.spec, "fam": self.fam, "prog": prog})
    }

    fn tr_prog(&self, states: &[St], tr: &Tr) -> Value {
        let p = match tr {
            Tr::Un(op, a) => Prog::Un { op: *op, a: states[*a].prog.clone() },
            Tr::Bin(op, a, b) => Prog::Bin { op: *op, a: states[*a].prog.clone(), b: states[*b].prog.clone() },
            Tr::Pl(op, a, v, sm, lm) => Prog::Pl { op: *op, a: states[*a].prog.clone(), val: *v, sm: *sm, lm: *lm },
            Tr::AddMany(v) => Prog::AddMany { items: v.iter().map(|i| states[*i].prog.clone()).collect() },
        };
        self.case_json(p.to_json())
    }

    fn run_batch(&self, sys: &Sys, states: &[St], trs: &[Tr], threads: usize) -> Vec<(Option<St>, Vec<Dis>)> {
        let chunk = (trs.len() / (threads * 8)).max(1);
        let next = std::sync::atomic::AtomicUsize::new(0);
        let mut out: Vec<Option<(Option<St>, Vec<Dis>)>> = (0..trs.len()).map(|_| None).collect();
        let out_ptr = std::sync::Mutex::new(&mut out);
        std::thread::scope(|sc| {
            for _ in 0..threads {
                sc.spawn(|| {
                    heathcliff_thread_init();
                    loop {
                        let start = next.fetch_add(chunk, std::sync::atomic::Ordering::SeqCst);
                        if start >= trs.len() {
                            break;
                        }
                        let end = (start + chunk).min(trs.len());
                        let mut local = Vec::with_capacity(end - start);
                        for tr in &trs[start..end] {
                            let mut dis = vec![];
                            let r = match guard(|| self.exec(sys, states, tr, &mut dis)) {
                                Ok(r) => r,
                                Err(p) => {
                                    dis.push(Dis { class: "accept", key: format!("unexpected-panic:{}", panic_class(&p)), expected: "no panic outside guarded subject calls".into(), observed: p });
                                    None
                                }
                            };
                            local.push((r, dis));
                        }
                        let mut o = out_ptr.lock().unwrap();
                        for (i, l) in local.into_iter().enumerate() {
                            o[start + i] = Some(l);
                        }
                    }
                });
            }
        });
        out.into_iter().map(|o| o.unwrap()).collect()
    }

    fn record(&self, rep: &Report, case: impl Fn() -> Value, dis: Vec<Dis>) {
        for d in dis {
            if self.judged.contains(&d.class) {
                rep.add_violation(&self.name, case(), Fail { key: d.key, expected: d.expected, observed: d.observed });
            }
        }
    }

    fn conc_key(sys: &Sys, s: &St) -> u64 {
        let zb: Vec<(u64, u64)> = s.z.iter().map(|c| (c.re.to_bits(), c.im.to_bits())).collect();
        h64(&(sys.meta(&s.ct), zb))
    }
}

impl AnySection for E2cSection {
    fn name(&self) -> String {
        self.name.clone()
    }

    fn replay(&self, case: &Value) -> Result<CaseOut, String> {
        let spec: ParamSpec = serde_json::from_value(case["spec"].clone()).map_err(|e| e.to_string())?;
        let fam: Noise = serde_json::from_value(case["fam"].clone()).map_err(|e| e.to_string())?;
        let prog = Prog::from_json(&case["prog"])?;
        let sys = Sys::new(&spec, fam, self.seed)?;
        let mut dis = vec![];
        let _ = sys.run_prog(&prog, self.oracles, &mut dis);
        for d in dis {
            if self.judged.contains(&d.class) {
                return Ok(CaseOut::fail(d.key, d.expected, d.observed));
            }
        }
        Ok(CaseOut::pass(true, 0, 1))
    }

    fn run(self: Box<Self>, rep: &Arc<Report>) {
        let t0 = Instant::now();
        let threads = rep.cfg.threads;
        let mut sys = match guard(|| Sys::new(&self.spec, self.fam, self.seed)) {
            Ok(Ok(s)) => s,
            Ok(Err(e)) | Err(e) => {
                rep.machinery_error(format!("section {}: cannot build the system: {e}", self.name));
                return;
            }
        };
        sys.sclass_width = self.sclass_width;
        let sys = sys;
        let allowance_s = (rep.cfg.remaining().as_secs_f64() - 2.0).max(1.0) / (self.count.saturating_sub(self.index).max(1)) as f64;
        let left = |reserve: f64| -> bool { t0.elapsed().as_secs_f64() + reserve < allowance_s && rep.cfg.remaining().as_secs_f64() > reserve + 1.0 };
        let mut states: Vec<St> = vec![];
        let mut conc: HashMap<u64, usize> = HashMap::new();
        let mut transitions = 0u64;
        let mut no_state = 0u64;

        // R0: fresh encryptions. Real family: public-key encryptions (+ one symmetric); Zero family:
        // symmetric encryptions with zero error and a full uniform c1 (+ one public-key one, whose
        // c1 vanishes because u = 0).
        let big = sys.qbits[0] as i32 - 2;
        let mut r0_spec: Vec<(usize, i32, bool)> = vec![];
        let main_sym = self.fam == Noise::Zero;
        for &m in &self.msgs {
            for &lg in &self.lgs {
                r0_spec.push((m, lg, main_sym));
            }
        }
        if let (Some(&m), Some(&lg)) = (self.msgs.get(self.msgs.len() / 2), self.lgs.last()) {
            r0_spec.push((m, lg, !main_sym));
        }
        if self.big_scale {
            r0_spec.push((0, big, main_sym));
            r0_spec.push((1, big, main_sym));
        }
        for (msg, lg, sym) in r0_spec {
            let mut dis = vec![];
            let r = sys.step_fresh(msg, lg, sym, self.oracles, &mut dis);
            transitions += 1;
            self.record(rep, || self.case_json(Prog::Fresh { msg, lg, sym }.to_json()), dis);
            if let Some(st) = r {
                let k = h64(&(Self::conc_key(&sys, &st), sym));
                if let std::collections::hash_map::Entry::Vacant(e) = conc.entry(k) {
                    e.insert(states.len());
                    states.push(st);
                }
            }
        }
        let r0 = states.len();
        let mut sample_progs: Vec<Value> = vec![];

        // phase A: concrete closure
        let pla = pl_alphabet(sys.pvals.len());
        let mut frontier_start = 0usize;
        let mut depth_done = 0;
        let mut capped = false;
        for round in 1..=self.depth {
            let known = states.len();
            let mut trs: Vec<Tr> = vec![];
            let is_new = |i: usize| i >= frontier_start;
            for a in 0..known {
                if is_new(a) {
                    for op in UNOPS {
                        trs.push(Tr::Un(op, a));
                    }
                    for op in PLOPS {
                        for &(v, sm, lm) in &pla {
                            trs.push(Tr::Pl(op, a, v, sm, lm));
                        }
                    }
                }
                for b in 0..known {
                    if is_new(a) || is_new(b) {
                        for op in BINOPS {
                            trs.push(Tr::Bin(op, a, b));
                        }
                    }
                }
            }
            if round == 1 {
                for a in (0..r0).step_by(2) {
                    for b in (0..r0).step_by(2) {
                        for c in (0..r0).step_by(3) {
                            trs.push(Tr::AddMany(vec![a, b, c]));
                        }
                    }
                }
                trs.push(Tr::AddMany(vec![0]));
                trs.push(Tr::AddMany((0..5).map(|_| r0 / 2).collect()));
            }
            if !left(1.0) {
                capped = true;
                break;
            }
            if trs.len() > MAX_ROUND {
                capped = true;
                trs.truncate(MAX_ROUND);
            }
            frontier_start = known;
            let snapshot: Vec<St> = states.clone();
            let mut stop = false;
            for chunk in trs.chunks(CHUNK) {
                let results = self.run_batch(&sys, &snapshot, chunk, threads);
                for (tr, (st, dis)) in chunk.iter().zip(results) {
                    transitions += 1;
                    if !dis.is_empty() {
                        self.record(rep, || self.tr_prog(&snapshot, tr), dis);
                    }
                    match st {
                        None => no_state += 1,
                        Some(st) => {
                            let k = Self::conc_key(&sys, &st);
                            if let std::collections::hash_map::Entry::Vacant(e) = conc.entry(k) {
                                e.insert(states.len());
                                if sample_progs.len() < 3 && st.prog.depth() == round {
                                    sample_progs.push(st.prog.to_json());
                                }
                                states.push(st);
                            }
                        }
                    }
                }
                if !left(0.5) {
                    stop = true;
                    break;
                }
            }
            if stop {
                capped = true;
                break;
            }
            depth_done = round;
        }
        let concrete_states = states.len();

        // phase B: abstract closure to fixpoint over (level, size, representation, scale class)
        let mut abs: HashMap<AKey, usize> = HashMap::new();
        let mut abs_rounds = 0;
        let mut abs_fix = false;
        let mut abs_transitions = 0u64;
        if self.abstract_closure && !capped {
            let mut wit: Vec<St> = vec![];
            for s in &states {
                let m = sys.akey(&s.ct);
                if let std::collections::hash_map::Entry::Vacant(e) = abs.entry(m) {
                    e.insert(wit.len());
                    wit.push(s.clone());
                }
            }
            let mut frontier_start = 0usize;
            loop {
                abs_rounds += 1;
                let known = wit.len();
                let keys: Vec<AKey> = wit.iter().map(|s| sys.akey(&s.ct)).collect();
                let mut trs: Vec<Tr> = vec![];
                let mut seen_groups: std::collections::HashSet<((usize, bool), (usize, bool))> = Default::default();
                for a in 0..known {
                    let new_a = a >= frontier_start;
                    if new_a {
                        for op in UNOPS {
                            trs.push(Tr::Un(op, a));
                        }
                        for op in PLOPS {
                            for &(v, sm, lm) in &pla {
                                trs.push(Tr::Pl(op, a, v, sm, lm));
                            }
                        }
                    }
                    for b in 0..known {
                        if !(new_a || b >= frontier_start) {
                            continue;
                        }
                        let (ga, gb) = ((keys[a].level, keys[a].ntt), (keys[b].level, keys[b].ntt));
                        if ga == gb || seen_groups.insert((ga, gb)) {
                            for op in BINOPS {
                                trs.push(Tr::Bin(op, a, b));
                            }
                        }
                    }
                }
                if trs.is_empty() {
                    abs_fix = true;
                    break;
                }
                if !left(1.0) || abs_rounds > 40 {
                    capped = true;
                    break;
                }
                if trs.len() > MAX_ROUND {
                    capped = true;
                    trs.truncate(MAX_ROUND);
                }
                frontier_start = known;
                let snapshot: Vec<St> = wit.clone();
                let mut stop = false;
                for chunk in trs.chunks(CHUNK) {
                    let results = self.run_batch(&sys, &snapshot, chunk, threads);
                    for (tr, (st, dis)) in chunk.iter().zip(results) {
                        abs_transitions += 1;
                        if !dis.is_empty() {
                            self.record(rep, || self.tr_prog(&snapshot, tr), dis);
                        }
                        match st {
                            None => no_state += 1,
                            Some(st) => {
                                let m = sys.akey(&st.ct);
                                if let std::collections::hash_map::Entry::Vacant(e) = abs.entry(m) {
                                    e.insert(wit.len());
                                    wit.push(st);
                                }
                            }
                        }
                    }
                    if !left(0.5) {
                        stop = true;
                        break;
                    }
                }
                if stop {
                    capped = true;
                    break;
                }
                if wit.len() == known {
                    abs_fix = true;
                    break;
                }
            }
        }

        let total_states = concrete_states as u64 + abs.len() as u64;
        let total_tr = transitions + abs_transitions;
        rep.states.fetch_add(total_states, Relaxed);
        rep.transitions.fetch_add(total_tr, Relaxed);
        rep.steps.fetch_add(total_tr, Relaxed);
        rep.evaluations.fetch_add(total_tr, Relaxed);
        for (i, s) in states.iter().enumerate() {
            rep.mark_nontrivial(h64(&(self.name.as_str(), "c", i, Self::conc_key(&sys, s))));
            rep.mark_outcome(h64(&sys.akey(&s.ct)));
        }
        for m in abs.keys() {
            rep.mark_nontrivial(h64(&(self.name.as_str(), "a", m)));
            rep.mark_outcome(h64(m));
        }
        for p in sample_progs {
            rep.sample(json!({"section": self.name, "program": p}));
        }
        let refusals = sys.stats.refusals.lock().unwrap().clone();
        for k in refusals.keys() {
            rep.mark_outcome(h64(&("refusal", k)));
        }
        let sizes: std::collections::BTreeSet<usize> = abs.keys().map(|m| m.size).collect();
        let lv: std::collections::BTreeSet<usize> = abs.keys().map(|m| m.level).collect();
        let sc: std::collections::BTreeSet<i32> = abs.keys().map(|m| m.sclass).collect();
        let exhaustive = !capped && depth_done == self.depth && (!self.abstract_closure || abs_fix);
        let g = |a: &AtomicU64| a.load(Relaxed);
        let st = &sys.stats;
        rep.push_section(SectionStat {
            name: self.name.clone(),
            engine: "E2c".into(),
            cases: total_tr,
            nontrivial: total_states,
            skipped: g(&st.operand_unavailable),
            outcomes: abs.len() as u64 + refusals.len() as u64,
            steps: total_tr,
            states: total_states,
            transitions: total_tr,
            exhaustive,
            bound: format!(
                "{} noise={:?}: R0 = {} fresh states (messages {:?} x scales 2^{:?}{}), concrete closure depth {} of {} ({} states, {} transitions), abstract closure {} after {} rounds ({} abstract states: sizes {:?}, levels {:?}, scale classes of {} bits {:?}; {} transitions); {} transitions without successor state ({} refusal kinds); decode judged on {} results ({} with bound <= 2^-20 relative, {} <= 2^-4), {} not judged (wrap-around possible)",
                self.spec.label(), self.fam, r0, self.msgs, self.lgs, if self.big_scale { format!(" + 2^{big}") } else { String::new() },
                depth_done, self.depth, concrete_states, transitions,
                if !self.abstract_closure { "not requested" } else if abs_fix { "reached FIXPOINT" } else { "NOT converged (capped)" },
                abs_rounds, abs.len(), sizes, lv, self.sclass_width, sc, abs_transitions, no_state, refusals.len(),
                g(&st.judged), g(&st.sharp), g(&st.meaningful), g(&st.wrap_unjudged)
            ),
            wall_s: t0.elapsed().as_secs_f64(),
            extra: json!({"r0": r0, "concrete_states": concrete_states, "abstract_states": abs.len(), "no_successor": no_state,
                "refusals_as_predicted": refusals, "decode_judged": g(&st.judged), "decode_sharp_2^-20": g(&st.sharp), "decode_meaningful_2^-4": g(&st.meaningful),
                "decode_not_judged_wrap": g(&st.wrap_unjudged), "lenient_accepted": g(&st.either_accepted), "lenient_refused": g(&st.either_refused),
                "operand_unavailable": g(&st.operand_unavailable)}),
        });
        if g(&st.either_accepted) > 0 {
            rep.observe(format!("{}: {} operations outside the statement (plain operand of another level / scales one ulp apart) were computed; their results were checked like any other", self.name, g(&st.either_accepted)));
        }
    }
}
