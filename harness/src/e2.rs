//! E2 — explicit-state exploration of BFV/BGV operation programs on the real Evaluator.
//!
//! A state is a real `Ciphertext` plus its shadow (plaintext polynomial in Z_t[X]/(X^N+1)), an
//! a-priori noise bound (bits) and the program that produced it. Transitions apply one real
//! Evaluator operation (in its three API forms) to one or two reached states.
//!   phase A: concrete closure to depth 2 (every program of <= 2 operations over the alphabets;
//!            thorough: also depth 3 where every binary operation has an operand of depth <= 1),
//!            states deduplicated by (metadata, shadow)
//!   phase B: abstract closure to fixpoint, key = (level, size, representation, BGV factor),
//!            one concrete witness per abstract state, every (operation, abstract operand tuple)
//!            executed once on real data
//! Every transition is checked against the model (conformance); which classes of disagreement
//! are judged depends on the property using the engine (C02: ring/meta/accept, C06:
//! forms/valid/refusal, C07: budget).

use crate::engine::*;
use crate::he::*;
use crate::refmodel::bigu::*;
use crate::refmodel::poly::*;
use heathcliff::*;
use serde_json::{json, Value};
use std::collections::HashMap;
use std::sync::Arc;
use std::time::Instant;

#[derive(Clone, Copy, Debug, PartialEq, Eq, Hash)]
pub enum UnOp {
    Negate,
    Square,
    Relin,
    RelinFull,
    ToNtt,
    FromNtt,
    ModSwitch,
}
#[derive(Clone, Copy, Debug, PartialEq, Eq, Hash)]
pub enum BinOp {
    Add,
    Sub,
    Mul,
}
#[derive(Clone, Copy, Debug, PartialEq, Eq, Hash)]
pub enum PlOp {
    AddPlain,
    SubPlain,
    MulPlain,
}

pub const UNOPS: [UnOp; 7] = [UnOp::Negate, UnOp::Square, UnOp::Relin, UnOp::RelinFull, UnOp::ToNtt, UnOp::FromNtt, UnOp::ModSwitch];
pub const BINOPS: [BinOp; 3] = [BinOp::Add, BinOp::Sub, BinOp::Mul];
pub const PLOPS: [PlOp; 3] = [PlOp::AddPlain, PlOp::SubPlain, PlOp::MulPlain];

#[derive(Clone, Debug)]
pub enum Prog {
    Fresh { msg: usize, sym: bool },
    Un { op: UnOp, a: Arc<Prog> },
    Bin { op: BinOp, a: Arc<Prog>, b: Arc<Prog> },
    Pl { op: PlOp, a: Arc<Prog>, p: usize, ntt: bool },
    AddMany { items: Vec<Arc<Prog>> },
    MulMany { items: Vec<Arc<Prog>> },
}

impl Prog {
    pub fn to_json(&self) -> Value {
        match self {
            Prog::Fresh { msg, sym } => json!({"fresh": msg, "sym": sym}),
            Prog::Un { op, a } => json!({"un": format!("{:?}", op), "a": a.to_json()}),
            Prog::Bin { op, a, b } => json!({"bin": format!("{:?}", op), "a": a.to_json(), "b": b.to_json()}),
            Prog::Pl { op, a, p, ntt } => json!({"pl": format!("{:?}", op), "a": a.to_json(), "p": p, "ntt": ntt}),
            Prog::AddMany { items } => json!({"add_many": items.iter().map(|i| i.to_json()).collect::<Vec<_>>()}),
            Prog::MulMany { items } => json!({"multiply_many": items.iter().map(|i| i.to_json()).collect::<Vec<_>>()}),
        }
    }
    pub fn from_json(v: &Value) -> Result<Arc<Prog>, String> {
        let sub = |k: &str| Prog::from_json(&v[k]);
        if let Some(m) = v.get("fresh") {
            return Ok(Arc::new(Prog::Fresh { msg: m.as_u64().ok_or("fresh")? as usize, sym: v["sym"].as_bool().unwrap_or(false) }));
        }
        if let Some(o) = v.get("un").and_then(|o| o.as_str()) {
            let op = UNOPS.iter().find(|u| format!("{:?}", u) == o).ok_or("unop")?;
            return Ok(Arc::new(Prog::Un { op: *op, a: sub("a")? }));
        }
        if let Some(o) = v.get("bin").and_then(|o| o.as_str()) {
            let op = BINOPS.iter().find(|u| format!("{:?}", u) == o).ok_or("binop")?;
            return Ok(Arc::new(Prog::Bin { op: *op, a: sub("a")?, b: sub("b")? }));
        }
        if let Some(o) = v.get("pl").and_then(|o| o.as_str()) {
            let op = PLOPS.iter().find(|u| format!("{:?}", u) == o).ok_or("plop")?;
            return Ok(Arc::new(Prog::Pl { op: *op, a: sub("a")?, p: v["p"].as_u64().ok_or("p")? as usize, ntt: v["ntt"].as_bool().unwrap_or(false) }));
        }
        for (k, many) in [("add_many", false), ("multiply_many", true)] {
            if let Some(items) = v.get(k).and_then(|o| o.as_array()) {
                let items: Result<Vec<_>, _> = items.iter().map(Prog::from_json).collect();
                return Ok(Arc::new(if many { Prog::MulMany { items: items? } } else { Prog::AddMany { items: items? } }));
            }
        }
        Err(format!("cannot parse program {v}"))
    }
    pub fn depth(&self) -> usize {
        match self {
            Prog::Fresh { .. } => 0,
            Prog::Un { a, .. } | Prog::Pl { a, .. } => 1 + a.depth(),
            Prog::Bin { a, b, .. } => 1 + a.depth().max(b.depth()),
            Prog::AddMany { items } | Prog::MulMany { items } => 1 + items.iter().map(|i| i.depth()).max().unwrap_or(0),
        }
    }
}

#[derive(Clone)]
pub struct St {
    pub ct: Ciphertext,
    pub m: Vec<u64>,
    pub wbits: f64,
    pub prog: Arc<Prog>,
}

#[derive(Clone, Copy, Debug, PartialEq, Eq, Hash)]
pub struct Meta {
    pub level: usize,
    pub size: usize,
    pub ntt: bool,
    pub cf: u64,
}

#[derive(Clone, Copy)]
pub struct Oracles {
    /// decrypt vs shadow, metadata, acceptance of valid programs (C02)
    pub ring: bool,
    /// three API forms byte-identical, operands untouched, is_valid_for, refusal of invalid operands (C06)
    pub forms: bool,
    /// exact big-integer noise budget (C07)
    pub budget: bool,
}

/// One disagreement between model and implementation.
pub struct Dis {
    pub class: &'static str, // ring | meta | accept | refusal | forms | valid | budget
    pub key: String,
    pub expected: String,
    pub observed: String,
}

pub struct Sys {
    pub spec: ParamSpec,
    pub kit: Kit,
    pub seed: u64,
    pub levels: Vec<ParmsID>,
    pub moduli: Vec<Vec<u64>>,
    pub qbits: Vec<usize>,
    pub relin1: Option<RelinKeys>,
    pub relin_full: Option<RelinKeys>,
    pub msgs: Vec<Vec<u64>>,
    pub plains: Vec<Vec<u64>>,
    /// destinations that already hold some other valid ciphertext (forms oracle)
    pub dirty: Vec<Ciphertext>,
    /// C02 (ring oracle without the forms oracle): run every operation once more in its destination form into ONE dirty
    /// destination; a program that reuses buffers is a program, its result must decrypt to the same value
    pub ring_dirty: std::sync::atomic::AtomicBool,
    /// how many of the dirty destinations the forms oracle tries per transition (all by default; 2, rotating with the operands,
    /// in the restricted depth-3 closures of the thorough tier, where 10^7 transitions cover every (operation, shape, destination) anyway)
    pub dirty_per_transition: std::sync::atomic::AtomicUsize,
    pub sk: Vec<i64>,
    pub bgv: bool,
    pub special_bits: usize,
    pub budget_checks: std::sync::atomic::AtomicU64,
    pub zero_budget: std::sync::atomic::AtomicU64,
    pub min_positive_budget: std::sync::atomic::AtomicU64,
}

fn log2(x: f64) -> f64 {
    x.max(1.0).log2()
}
fn lse(a: f64, b: f64) -> f64 {
    // log2(2^a + 2^b), safely
    let (hi, lo) = if a > b { (a, b) } else { (b, a) };
    hi + (1.0 + (2f64).powf(lo - hi)).log2()
}

impl Sys {
    pub fn new(spec: &ParamSpec, seed: u64) -> Result<Sys, String> {
        assert!(spec.scheme != Scheme::CKKS);
        env_real(seed, h64(&("e2-kit", spec)));
        let kit = Kit::new(spec)?;
        let levels = kit.levels();
        let moduli: Vec<Vec<u64>> = levels.iter().map(|l| kit.moduli_at(l)).collect();
        let qbits = moduli.iter().map(|m| BigU::product(m).bits()).collect();
        let (relin1, relin_full) = if kit.ctx.using_keyswitching() {
            (Some(kit.keygen.create_relin_keys(false)), Some(kit.keygen.verif_create_relin_keys(14, false)))
        } else {
            (None, None)
        };
        let n = spec.n;
        let t = spec.t;
        // message alphabet: 0, 1, X, (t-1)X^(N-1), dense generic, dense upper-half
        let mut msgs = vec![vec![0u64; n], pad(&[1], n), pad(&[0, 1], n)];
        let mut last = vec![0u64; n];
        last[n - 1] = t - 1;
        msgs.push(last);
        msgs.push((0..n).map(|i| (3 + 5 * i as u64 + seed % 3) % t).collect());
        msgs.push((0..n).map(|i| t - 1 - (i as u64 % 2)).collect());
        // tiny (N, t): the complete plaintext space
        if (t as f64).powi(n as i32) <= 32.0 {
            msgs.clear();
            let total = t.pow(n as u32);
            for code in 0..total {
                let mut c = code;
                msgs.push((0..n).map(|_| { let d = c % t; c /= t; d }).collect());
            }
        }
        // plain operands: the same plus upper-half monomial, lower-half monomial of high degree, short constant
        let mut plains = msgs.clone();
        let mut mono_hi = vec![0u64; n];
        mono_hi[1 % n] = t - 2 % t;
        plains.push(mono_hi);
        let mut mono_lo = vec![0u64; n];
        mono_lo[n - 1] = 1 + (t > 2) as u64;
        plains.push(mono_lo);
        // the largest lower-half coefficient: not smaller than a coefficient prime below t/2 when there is one
        // (positive-monomial branch of multiply_plain with an unreduced scalar; seeded changes C02-C / C09-D)
        let mut mono_mid = vec![0u64; n];
        mono_mid[n / 2] = (t - 1) / 2;
        plains.push(mono_mid);
        // secret key coefficients by an independent inverse transform of the key's first RNS component
        let key_mods = kit.moduli_at(kit.ctx.key_parms_id());
        let q0 = key_mods[0];
        let root = kit.ctx.key_context_data().unwrap().small_ntt_tables()[0].root();
        let s0 = if n >= 128 { crate::refmodel::ntt::fast_intt(&kit.sk.data()[..n], root, q0) } else { naive_intt(&kit.sk.data()[..n], root, q0) };
        let sk: Vec<i64> = s0.iter().map(|&v| if v == 0 { 0 } else if v == 1 { 1 } else if v == q0 - 1 { -1 } else { i64::MAX }).collect();
        if sk.iter().any(|&v| v == i64::MAX) {
            return Err("secret key is not ternary under the independent inverse transform".into());
        }
        env_real(seed, h64(&("e2-dirty", spec)));
        let dirty = crate::he::dirty_destinations(&kit);
        let special_bits = if kit.ctx.using_keyswitching() { 64 - key_mods.last().unwrap().leading_zeros() as usize } else { 0 };
        Ok(Sys { spec: spec.clone(), bgv: spec.scheme == Scheme::BGV, kit, seed, levels, moduli, qbits, relin1, relin_full, msgs, plains, dirty, ring_dirty: Default::default(), dirty_per_transition: std::sync::atomic::AtomicUsize::new(usize::MAX), sk, special_bits, budget_checks: Default::default(), zero_budget: Default::default(), min_positive_budget: std::sync::atomic::AtomicU64::new(u64::MAX) })
    }

    pub fn n(&self) -> usize {
        self.spec.n
    }
    pub fn t(&self) -> u64 {
        self.spec.t
    }
    pub fn level_of(&self, id: &ParmsID) -> Option<usize> {
        self.levels.iter().position(|l| l == id)
    }
    pub fn meta(&self, ct: &Ciphertext) -> Meta {
        Meta { level: self.level_of(ct.parms_id()).unwrap_or(usize::MAX), size: ct.size(), ntt: ct.is_ntt_form(), cf: ct.correction_factor() }
    }
    fn lt(&self) -> f64 {
        log2(self.t() as f64)
    }
    fn ln(&self) -> f64 {
        log2(self.n() as f64)
    }
    fn ln1(&self) -> f64 {
        log2(self.n() as f64 + 1.0)
    }
    /// threshold test of the a-priori bound
    pub fn judged(&self, wbits: f64, level: usize) -> bool {
        level < self.qbits.len() && wbits + 2.0 < self.qbits[level] as f64 - 1.0
    }

    pub fn fresh(&self, msg: usize, sym: bool) -> Result<St, String> {
        env_real(self.seed, h64(&("e2-fresh", &self.spec, msg, sym)));
        let pt = self.kit.plain(&self.msgs[msg]);
        // every second message is encrypted through the destination-argument form into a buffer that already holds another
        // valid ciphertext (other level / size / representation / BGV factor): what the buffer held must not matter
        let reuse = if msg % 2 == 1 && !self.dirty.is_empty() { Some(self.dirty[(msg / 2) % self.dirty.len()].clone()) } else { None };
        let ct = guard(|| {
            if sym {
                match reuse {
                    Some(mut d) => {
                        self.kit.enc.encrypt_symmetric(&pt, &mut d);
                        d
                    }
                    None => {
                        let c = self.kit.enc.encrypt_symmetric_new(&pt);
                        // polynomials shorter than 9 words cannot hold a seed: the library then stores c1 itself
                        if c.contains_seed() { c.expand_seed(&self.kit.ctx) } else { c }
                    }
                }
            } else {
                match reuse {
                    Some(mut d) => {
                        self.kit.enc.encrypt(&pt, &mut d);
                        d
                    }
                    None => self.kit.enc.encrypt_new(&pt),
                }
            }
        })?;
        let n = self.n() as f64;
        let e = 21.0 * (2.0 * n + 1.0) + n + 2.0;
        let t = self.t() as f64;
        // BFV: [t*phase]_q = t*e - rho with |rho| <= t/2 (the encoder rounds q*m/t exactly); BGV: m_centred + t*e
        let w = if self.bgv { log2(t * (e + 1.0)) + 1.0 } else { log2(t * e + t) + 1.0 };
        Ok(St { ct, m: self.msgs[msg].clone(), wbits: w, prog: Arc::new(Prog::Fresh { msg, sym }) })
    }

    fn plain_operand(&self, p: usize, ntt: bool, level: &ParmsID) -> Result<Plaintext, String> {
        let pt = self.kit.plain(&self.plains[p]);
        if ntt {
            guard(|| self.kit.eval.transform_plain_to_ntt_new(&pt, level))
        } else {
            Ok(pt)
        }
    }

    // -------------------------------------------------------------------------------------
    // decryption / exact phase
    // -------------------------------------------------------------------------------------

    pub fn decrypt(&self, ct: &Ciphertext) -> Result<Vec<u64>, String> {
        guard(|| {
            let c = if self.bgv && !ct.is_ntt_form() {
                self.kit.eval.transform_to_ntt_new(ct)
            } else if !self.bgv && ct.is_ntt_form() {
                self.kit.eval.transform_from_ntt_new(ct)
            } else {
                ct.clone()
            };
            self.kit.dec_coeffs(&c)
        })
    }

    /// phase c(s) mod Q as one BigU per coefficient, computed with own arithmetic
    pub fn exact_phase(&self, ct: &Ciphertext) -> Option<Vec<BigU>> {
        let level = self.level_of(ct.parms_id())?;
        let mods = &self.moduli[level];
        let n = self.n();
        let cd = self.kit.ctx.get_context_data(ct.parms_id())?;
        let mut per_prime: Vec<Vec<u64>> = vec![];
        for (j, &q) in mods.iter().enumerate() {
            let s: Vec<u64> = self.sk.iter().map(|&v| if v < 0 { q - 1 } else { v as u64 }).collect();
            let root = cd.small_ntt_tables()[j].root();
            let mut acc = vec![0u64; n];
            let mut spow = pad(&[1], n);
            for i in 0..ct.size() {
                let comp = &ct.poly(i)[j * n..(j + 1) * n];
                // N >= 128: the O(N log N) reference transform (validated against the by-definition one in the self-test)
                let big = n >= 128;
                let c = if !ct.is_ntt_form() { comp.to_vec() } else if big { crate::refmodel::ntt::fast_intt(comp, root, q) } else { naive_intt(comp, root, q) };
                if big {
                    acc = padd(&acc, &crate::refmodel::ntt::fast_negacyclic_mul(&c, &spow, root, q), q);
                    spow = crate::refmodel::ntt::fast_negacyclic_mul(&spow, &s, root, q);
                } else {
                    acc = padd(&acc, &pmul(&c, &spow, q), q);
                    spow = pmul(&spow, &s, q);
                }
            }
            per_prime.push(acc);
        }
        Some((0..n).map(|k| crt(&per_prime.iter().map(|p| p[k]).collect::<Vec<_>>(), mods)).collect())
    }

    /// (exact budget, own decryption) from the exact phase
    pub fn exact_budget_and_message(&self, ct: &Ciphertext) -> Option<(usize, Vec<u64>)> {
        let level = self.level_of(ct.parms_id())?;
        let q = BigU::product(&self.moduli[level]);
        let t = self.t();
        let phase = self.exact_phase(ct)?;
        let mut maxbits = 0usize;
        let mut msg = vec![];
        for x in &phase {
            let y = if self.bgv { x.clone() } else { x.mul_u64(t).rem(&q) };
            let c = centered(&y, &q);
            maxbits = maxbits.max(c.mag.bits());
            if self.bgv {
                let r = centered(x, &q).rem_u64(t);
                let inv = inv_mod_u64(ct.correction_factor() % t, t).unwrap_or(1);
                msg.push(mul_mod(r, inv, t));
            } else {
                // round(t*x/Q) mod t
                let num = x.mul_u64(t).add(&q.shr(1));
                msg.push(num.div(&q).rem_u64(t));
            }
        }
        let budget = (q.bits() as isize - maxbits as isize - 1).max(0) as usize;
        Some((budget, msg))
    }

    pub fn reported_budget(&self, ct: &Ciphertext) -> Result<usize, String> {
        guard(|| {
            let c = if ct.is_ntt_form() { self.kit.eval.transform_from_ntt_new(ct) } else { ct.clone() };
            self.kit.dec.invariant_noise_budget(&c)
        })
    }

    // -------------------------------------------------------------------------------------
    // the model: acceptance, metadata, shadow, noise
    // -------------------------------------------------------------------------------------

    fn natural_ntt(&self) -> bool {
        self.bgv
    }

    fn ks_bits(&self, level: usize) -> f64 {
        // bound on t * (key switching error): k*N*21*max(q_i)/P (x4) + rounding (N+1)
        let k = self.moduli[level].len() as f64;
        let maxq = self.moduli[level].iter().map(|q| 64 - q.leading_zeros() as usize).max().unwrap() as f64;
        let ratio = (maxq - self.special_bits as f64 + 1.0).max(0.0);
        self.lt() + lse(log2(k) + self.ln() + log2(21.0) + ratio + 2.0, self.ln1() + 1.0) + 1.0
    }

    /// Some(predicted (meta, shadow, wbits)) when the model accepts, None when it refuses.
    pub fn predict_un(&self, op: UnOp, a: &St) -> Option<(Meta, Vec<u64>, f64)> {
        let ma = self.meta(&a.ct);
        let t = self.t();
        match op {
            UnOp::Negate => Some((ma, pneg(&a.m, t), a.wbits)),
            UnOp::ToNtt => (!ma.ntt).then(|| (Meta { ntt: true, ..ma }, a.m.clone(), a.wbits)),
            UnOp::FromNtt => ma.ntt.then(|| (Meta { ntt: false, ..ma }, a.m.clone(), a.wbits)),
            UnOp::Square => {
                if ma.ntt != self.natural_ntt() || 2 * ma.size - 1 > 16 {
                    return None;
                }
                let cf = if self.bgv { mul_mod(ma.cf, ma.cf, t) } else { 1 };
                Some((Meta { size: 2 * ma.size - 1, cf, ..ma }, pmul(&a.m, &a.m, t), self.mul_bits(a.wbits, a.wbits, ma.size, ma.size)))
            }
            UnOp::Relin | UnOp::RelinFull => {
                let keys = if op == UnOp::Relin { 1 } else { 14 };
                if self.relin1.is_none() {
                    return None;
                }
                if ma.size == 2 {
                    // nothing to do; accepted in any representation? The implementation checks the
                    // ciphertext and the keys, then returns early.
                    return Some((ma, a.m.clone(), a.wbits));
                }
                if ma.ntt != self.natural_ntt() || ma.size - 2 > keys {
                    return None;
                }
                let w = lse(a.wbits, self.ks_bits(ma.level) + log2((ma.size - 2) as f64)) + 1.0;
                Some((Meta { size: 2, ..ma }, a.m.clone(), w))
            }
            UnOp::ModSwitch => {
                if ma.level + 1 >= self.levels.len() || ma.ntt != self.natural_ntt() {
                    return None;
                }
                let qlast = *self.moduli[ma.level].last().unwrap();
                let cf = if self.bgv { mul_mod(ma.cf, inv_mod_u64(qlast % t, t)?, t) } else { 1 };
                let qlb = 64 - qlast.leading_zeros() as usize;
                let w = lse(lse(a.wbits - qlb as f64 + 1.0, self.lt() + ma.size as f64 * self.ln1() + 1.0), 2.0 * self.lt()) + 1.0;
                Some((Meta { level: ma.level + 1, cf, ..ma }, a.m.clone(), w))
            }
        }
    }

    fn mul_bits(&self, w1: f64, w2: f64, s1: usize, s2: usize) -> f64 {
        if self.bgv {
            w1 + w2 + self.ln() + 1.0
        } else {
            w1.max(w2) + 1.0 + self.lt() + self.ln() + (s1 + s2 - 1) as f64 * self.ln1() + 4.0
        }
    }

    /// cf of the result is left to the implementation for additions of different factors
    /// (None = any unit is admissible).
    pub fn predict_bin(&self, op: BinOp, a: &St, b: &St) -> Option<(Meta, bool, Vec<u64>, f64)> {
        let (ma, mb) = (self.meta(&a.ct), self.meta(&b.ct));
        let t = self.t();
        if ma.level != mb.level {
            return None;
        }
        match op {
            BinOp::Add | BinOp::Sub => {
                if ma.ntt != mb.ntt {
                    return None;
                }
                let m = if op == BinOp::Add { padd(&a.m, &b.m, t) } else { psub(&a.m, &b.m, t) };
                let same = ma.cf == mb.cf;
                let w = if same { a.wbits.max(b.wbits) + 1.0 } else { a.wbits.max(b.wbits) + self.lt() + 1.0 };
                Some((Meta { size: ma.size.max(mb.size), ..ma }, same, m, w))
            }
            BinOp::Mul => {
                if ma.ntt != self.natural_ntt() || mb.ntt != self.natural_ntt() || ma.size + mb.size - 1 > 16 {
                    return None;
                }
                let cf = if self.bgv { mul_mod(ma.cf, mb.cf, t) } else { 1 };
                Some((Meta { size: ma.size + mb.size - 1, cf, ..ma }, true, pmul(&a.m, &b.m, t), self.mul_bits(a.wbits, b.wbits, ma.size, mb.size)))
            }
        }
    }

    pub fn predict_pl(&self, op: PlOp, a: &St, p: usize, ntt: bool) -> Option<(Meta, Vec<u64>, f64)> {
        let ma = self.meta(&a.ct);
        let t = self.t();
        let pm = &self.plains[p];
        match op {
            PlOp::AddPlain | PlOp::SubPlain => {
                // BFV: both in coefficient form; BGV: ciphertext NTT, plaintext coefficient form
                if ma.ntt != self.natural_ntt() || ntt {
                    return None;
                }
                let m = if op == PlOp::AddPlain { padd(&a.m, pm, t) } else { psub(&a.m, pm, t) };
                Some((ma, m, lse(a.wbits, 2.0 * self.lt()) + 1.0))
            }
            PlOp::MulPlain => Some((ma, pmul(&a.m, pm, t), a.wbits + self.ln() + self.lt() + 1.0)),
        }
    }

    // -------------------------------------------------------------------------------------
    // running the real operations in their three forms
    // -------------------------------------------------------------------------------------

    fn three_forms(
        &self,
        what: &str,
        operands: &[&Ciphertext],
        forms: bool,
        f_inplace: &dyn Fn() -> Ciphertext,
        f_dest: &dyn Fn(Ciphertext) -> Ciphertext,
        f_new: &dyn Fn() -> Ciphertext,
        dis: &mut Vec<Dis>,
    ) -> Result<Ciphertext, String> {
        let before: Vec<u64> = operands.iter().map(|c| ct_fingerprint(c)).collect();
        let r1 = guard(f_inplace);
        if !forms && !self.dirty.is_empty() && self.ring_dirty.load(std::sync::atomic::Ordering::Relaxed) {
            if let Ok(c1) = &r1 {
                let k = (h64(&(what, before.as_slice())) % self.dirty.len() as u64) as usize;
                let rd = guard(|| f_dest(self.dirty[k].clone()));
                let same = matches!(&rd, Ok(cd) if ct_fingerprint(cd) == ct_fingerprint(c1));
                if !same {
                    // different bytes are a C06 matter; here: does it still decrypt to the same message?
                    let m1 = self.decrypt(c1);
                    let md = rd.as_ref().map_err(|e| e.clone()).and_then(|cd| self.decrypt(cd));
                    if m1.is_ok() && m1 != md {
                        dis.push(Dis {
                            class: "ring",
                            key: format!("ring:{what}:result-depends-on-destination-contents"),
                            expected: format!("the destination form into a buffer that held another ciphertext ({}) decrypts like the in-place form ({})", ct_meta(&self.dirty[k]), ct_meta(c1)),
                            observed: match (&rd, &md) {
                                (Ok(cd), Ok(_)) => format!("different message; result {}", ct_meta(cd)),
                                (Ok(cd), Err(e)) => format!("decryption refused ({e}); result {}", ct_meta(cd)),
                                (Err(e), _) => format!("operation refused: {e}"),
                            },
                        });
                    }
                }
            }
        }
        if forms {
            let r2 = guard(|| f_dest(Ciphertext::new()));
            let r3 = guard(f_new);
            let after: Vec<u64> = operands.iter().map(|c| ct_fingerprint(c)).collect();
            if before != after {
                dis.push(Dis { class: "forms", key: format!("forms:{what}:operand-modified"), expected: "read-only operands unchanged".into(), observed: "operand bytes/metadata changed".into() });
            }
            let fp = |r: &Result<Ciphertext, String>| r.as_ref().map(|c| ct_fingerprint(c)).map_err(|e| panic_class(e));
            let (a, b, c) = (fp(&r1), fp(&r2), fp(&r3));
            if a.is_ok() != b.is_ok() || a.is_ok() != c.is_ok() {
                dis.push(Dis {
                    class: "forms",
                    key: format!("forms:{what}:acceptance-differs"),
                    expected: "in-place, destination and _new forms accept/refuse alike".into(),
                    observed: format!("inplace={:?} dest={:?} new={:?}", a.is_ok(), b.is_ok(), c.is_ok()),
                });
            } else if a.is_ok() && (a == b && a == c) {
                // the destination form once more, into destinations that already hold other valid ciphertexts
                let per = self.dirty_per_transition.load(std::sync::atomic::Ordering::Relaxed).min(self.dirty.len());
                let start = if per < self.dirty.len() { (h64(&(what, before.as_slice())) % self.dirty.len() as u64) as usize } else { 0 };
                for kk in 0..per {
                    let k = (start + kk) % self.dirty.len();
                    let d0 = &self.dirty[k];
                    let rd = guard(|| f_dest(d0.clone()));
                    if fp(&rd) != b {
                        dis.push(Dis {
                            class: "forms",
                            key: format!("forms:{what}:dirty-destination-differs"),
                            expected: format!("the result does not depend on what the destination held (destination #{k} held: {}); fresh destination gives: {}", ct_meta(d0), ct_meta(r2.as_ref().unwrap())),
                            observed: match &rd {
                                Ok(c) => ct_meta(c),
                                Err(e) => format!("refused: {e}"),
                            },
                        });
                        break;
                    }
                }
            } else if a.is_ok() && (a != b || a != c) {
                dis.push(Dis {
                    class: "forms",
                    key: format!("forms:{what}:bytes-differ"),
                    expected: "bit-identical results of the three forms".into(),
                    observed: format!("inplace: {} | dest: {} | new: {}", ct_meta(r1.as_ref().unwrap()), ct_meta(r2.as_ref().unwrap()), ct_meta(r3.as_ref().unwrap())),
                });
            }
        }
        r1
    }

    fn exec_un(&self, op: UnOp, a: &Ciphertext, forms: bool, dis: &mut Vec<Dis>) -> Result<Ciphertext, String> {
        let ev = &self.kit.eval;
        let what = format!("{:?}", op);
        macro_rules! tri {
            ($inpl:expr, $dest:expr, $new:expr) => {
                self.three_forms(
                    &what,
                    &[a],
                    forms,
                    &|| {
                        let mut c = a.clone();
                        $inpl(&mut c);
                        c
                    },
                    &|mut d: Ciphertext| {
                        $dest(&mut d);
                        d
                    },
                    &|| $new,
                    dis,
                )
            };
        }
        match op {
            UnOp::Negate => tri!(|c: &mut Ciphertext| ev.negate_inplace(c), |d: &mut Ciphertext| ev.negate(a, d), ev.negate_new(a)),
            UnOp::Square => tri!(|c: &mut Ciphertext| ev.square_inplace(c), |d: &mut Ciphertext| ev.square(a, d), ev.square_new(a)),
            UnOp::ToNtt => tri!(|c: &mut Ciphertext| ev.transform_to_ntt_inplace(c), |d: &mut Ciphertext| ev.transform_to_ntt(a, d), ev.transform_to_ntt_new(a)),
            UnOp::FromNtt => tri!(|c: &mut Ciphertext| ev.transform_from_ntt_inplace(c), |d: &mut Ciphertext| ev.transform_from_ntt(a, d), ev.transform_from_ntt_new(a)),
            UnOp::ModSwitch => tri!(|c: &mut Ciphertext| ev.mod_switch_to_next_inplace(c), |d: &mut Ciphertext| ev.mod_switch_to_next(a, d), ev.mod_switch_to_next_new(a)),
            UnOp::Relin | UnOp::RelinFull => {
                let rk = if op == UnOp::Relin { self.relin1.as_ref() } else { self.relin_full.as_ref() };
                match rk {
                    None => Err("no relinearization keys (single modulus)".into()),
                    Some(rk) => tri!(|c: &mut Ciphertext| ev.relinearize_inplace(c, rk), |d: &mut Ciphertext| ev.relinearize(a, rk, d), ev.relinearize_new(a, rk)),
                }
            }
        }
    }

    fn exec_bin(&self, op: BinOp, a: &Ciphertext, b: &Ciphertext, forms: bool, dis: &mut Vec<Dis>) -> Result<Ciphertext, String> {
        let ev = &self.kit.eval;
        let what = format!("{:?}", op);
        macro_rules! tri {
            ($inpl:ident, $dest:ident, $new:ident) => {
                self.three_forms(
                    &what,
                    &[a, b],
                    forms,
                    &|| {
                        let mut c = a.clone();
                        ev.$inpl(&mut c, b);
                        c
                    },
                    &|mut d: Ciphertext| {
                        ev.$dest(a, b, &mut d);
                        d
                    },
                    &|| ev.$new(a, b),
                    dis,
                )
            };
        }
        match op {
            BinOp::Add => tri!(add_inplace, add, add_new),
            BinOp::Sub => tri!(sub_inplace, sub, sub_new),
            BinOp::Mul => tri!(multiply_inplace, multiply, multiply_new),
        }
    }

    fn exec_pl(&self, op: PlOp, a: &Ciphertext, p: &Plaintext, forms: bool, dis: &mut Vec<Dis>) -> Result<Ciphertext, String> {
        let ev = &self.kit.eval;
        let what = format!("{:?}", op);
        let pf = pt_fingerprint(p);
        macro_rules! tri {
            ($inpl:ident, $dest:ident, $new:ident) => {
                self.three_forms(
                    &what,
                    &[a],
                    forms,
                    &|| {
                        let mut c = a.clone();
                        ev.$inpl(&mut c, p);
                        c
                    },
                    &|mut d: Ciphertext| {
                        ev.$dest(a, p, &mut d);
                        d
                    },
                    &|| ev.$new(a, p),
                    dis,
                )
            };
        }
        let r = match op {
            PlOp::AddPlain => tri!(add_plain_inplace, add_plain, add_plain_new),
            PlOp::SubPlain => tri!(sub_plain_inplace, sub_plain, sub_plain_new),
            PlOp::MulPlain => tri!(multiply_plain_inplace, multiply_plain, multiply_plain_new),
        };
        if forms && pt_fingerprint(p) != pf {
            dis.push(Dis { class: "forms", key: format!("forms:{what}:plain-operand-modified"), expected: "plaintext operand unchanged".into(), observed: "changed".into() });
        }
        r
    }

    // -------------------------------------------------------------------------------------
    // conformance of one result
    // -------------------------------------------------------------------------------------

    fn shape(&self, metas: &[Meta]) -> String {
        let sizes: Vec<String> = metas.iter().map(|m| m.size.to_string()).collect();
        let lv: Vec<String> = metas.iter().map(|m| if m.level == usize::MAX { "?".into() } else { m.level.to_string() }).collect();
        let ntt: Vec<&str> = metas.iter().map(|m| if m.ntt { "ntt" } else { "coef" }).collect();
        let cf = if self.bgv { format!(" cf={}", if metas.iter().all(|m| m.cf == 1) { "1" } else if metas.windows(2).all(|w| w[0].cf == w[1].cf) { "eq" } else { "diff" }) } else { String::new() };
        format!("{:?} sizes={} levels={} {}{}", self.spec.scheme, sizes.join("x"), if lv.windows(2).all(|w| w[0] == w[1]) { "same" } else { "differ" }, ntt.join("/"), cf)
    }

    #[allow(clippy::too_many_arguments)]
    fn conform(
        &self,
        opname: &str,
        operand_metas: &[Meta],
        predicted: Option<(Meta, bool, Vec<u64>, f64)>,
        result: Result<Ciphertext, String>,
        prog: Arc<Prog>,
        or: Oracles,
        operand_budgets_for_add: Option<(Vec<&St>, usize)>,
        dis: &mut Vec<Dis>,
    ) -> Option<St> {
        let shape = self.shape(operand_metas);
        match (predicted, result) {
            (None, Err(_)) => None, // refusal as predicted
            (None, Ok(c)) => {
                dis.push(Dis {
                    class: "refusal",
                    key: format!("refusal:{opname}:{shape}:accepted"),
                    expected: "operands the operation does not accept are refused".into(),
                    observed: format!("computed a result: {}", ct_meta(&c)),
                });
                None
            }
            (Some(_), Err(e)) => {
                dis.push(Dis {
                    class: "accept",
                    key: format!("accept:{opname}:{shape}:{}", panic_class(&e)),
                    expected: "well-typed operation is computed".into(),
                    observed: e,
                });
                None
            }
            (Some((pm, cf_determined, shadow, wbits)), Ok(c)) => {
                let om = self.meta(&c);
                let meta_ok = om.level == pm.level && om.size == pm.size && om.ntt == pm.ntt && (!cf_determined || om.cf == pm.cf) && c.scale() == 1.0;
                if !meta_ok {
                    dis.push(Dis { class: "meta", key: format!("meta:{opname}:{shape}"), expected: format!("{:?} (cf determined: {cf_determined})", pm), observed: format!("{:?} scale={}", om, c.scale()) });
                }
                if self.bgv && (om.cf == 0 || om.cf >= self.t() || gcd_u64(om.cf, self.t()) != 1) {
                    dis.push(Dis { class: "meta", key: format!("meta:{opname}:{shape}:factor-not-a-unit"), expected: "correction factor is a unit modulo t in [1,t)".into(), observed: format!("{}", om.cf) });
                }
                if or.forms {
                    use heathcliff::ValCheck;
                    let valid = guard(|| c.is_valid_for(&self.kit.ctx)).unwrap_or(false);
                    let buf_ok = om.level != usize::MAX && c.data().len() == c.size() * self.n() * self.moduli[om.level.min(self.moduli.len() - 1)].len();
                    if !valid || !buf_ok {
                        dis.push(Dis { class: "valid", key: format!("valid:{opname}:{shape}"), expected: "result is valid for the context".into(), observed: format!("is_valid_for={valid} buffer_ok={buf_ok} {}", ct_meta(&c)) });
                    }
                }
                if om.level == usize::MAX {
                    return None;
                }
                let st = St { ct: c, m: shadow, wbits, prog };
                if or.ring && self.judged(wbits, om.level) {
                    match self.decrypt(&st.ct) {
                        Ok(d) => {
                            if d != st.m {
                                dis.push(Dis { class: "ring", key: format!("ring:{opname}:{shape}:wrong"), expected: format!("{:?} (a-priori noise {:.0} of {} bits)", st.m, wbits, self.qbits[om.level]), observed: format!("{:?}", d) });
                                // a wrong result is not propagated: later transitions would only repeat the alarm
                                return None;
                            }
                        }
                        Err(e) => {
                            dis.push(Dis { class: "ring", key: format!("ring:{opname}:{shape}:decrypt-{}", panic_class(&e)), expected: "decryption of a valid result".into(), observed: e });
                            return None;
                        }
                    }
                }
                if or.budget {
                    self.budget_oracle(opname, &shape, &st, operand_budgets_for_add, dis);
                }
                Some(st)
            }
        }
    }

    fn budget_oracle(&self, opname: &str, shape: &str, st: &St, add_ops: Option<(Vec<&St>, usize)>, dis: &mut Vec<Dis>) {
        let Some((exact, ownmsg)) = self.exact_budget_and_message(&st.ct) else { return };
        {
            use std::sync::atomic::Ordering::Relaxed;
            self.budget_checks.fetch_add(1, Relaxed);
            if exact == 0 {
                self.zero_budget.fetch_add(1, Relaxed);
            } else {
                self.min_positive_budget.fetch_min(exact as u64, Relaxed);
            }
        }
        match self.reported_budget(&st.ct) {
            Ok(rep) => {
                if rep != exact {
                    dis.push(Dis { class: "budget", key: format!("budget:{opname}:{shape}:reported-differs"), expected: format!("{exact} bits (exact phase, big-integer arithmetic)"), observed: format!("{rep} bits") });
                }
            }
            Err(e) => dis.push(Dis { class: "budget", key: format!("budget:{opname}:{shape}:{}", panic_class(&e)), expected: "a noise budget".into(), observed: e }),
        }
        let level = self.level_of(st.ct.parms_id()).unwrap();
        if exact > 0 {
            // exact noise below threshold => library decryption equals the message read off the exact phase
            if let Ok(d) = self.decrypt(&st.ct) {
                if d != ownmsg {
                    dis.push(Dis { class: "budget", key: format!("budget:{opname}:{shape}:decrypt-differs-from-exact-phase"), expected: format!("{:?}", ownmsg), observed: format!("{:?}", d) });
                }
            }
        }
        if opname == "Fresh" {
            let floor = (self.qbits[level] as f64 - st.wbits.ceil() - 2.0).max(0.0) as usize;
            if exact < floor {
                dis.push(Dis { class: "budget", key: format!("budget:Fresh:{shape}:below-worst-case"), expected: format!(">= {floor} bits"), observed: format!("{exact} bits") });
            }
        }
        if let Some((ops, k)) = add_ops {
            // equal correction factors only
            if ops.windows(2).all(|w| w[0].ct.correction_factor() == w[1].ct.correction_factor()) {
                let mins = ops.iter().filter_map(|o| self.exact_budget_and_message(&o.ct).map(|x| x.0)).min().unwrap_or(0);
                let loss = (k as f64).log2().ceil() as usize + 1;
                if exact + loss < mins {
                    dis.push(Dis { class: "budget", key: format!("budget:{opname}:{shape}:loss-exceeds-bound"), expected: format!(">= {} - {} bits", mins, loss), observed: format!("{exact} bits") });
                }
            }
        }
        if opname == "Negate" {
            // handled by equality with the operand's budget in step_un
        }
    }

    // -------------------------------------------------------------------------------------
    // transitions
    // -------------------------------------------------------------------------------------

    pub fn step_fresh(&self, msg: usize, sym: bool, or: Oracles, dis: &mut Vec<Dis>) -> Option<St> {
        match self.fresh(msg, sym) {
            Err(e) => {
                dis.push(Dis { class: "accept", key: format!("accept:Fresh:{:?}:{}", self.spec.scheme, panic_class(&e)), expected: "encryption of a valid plaintext".into(), observed: e });
                None
            }
            Ok(st) => {
                let m = self.meta(&st.ct);
                let pm = Meta { level: 0, size: 2, ntt: self.natural_ntt(), cf: 1 };
                self.conform("Fresh", &[m], Some((pm, true, st.m.clone(), st.wbits)), Ok(st.ct.clone()), st.prog.clone(), or, None, dis)
            }
        }
    }

    pub fn step_un(&self, op: UnOp, a: &St, or: Oracles, dis: &mut Vec<Dis>) -> Option<St> {
        let pred = self.predict_un(op, a).map(|(m, s, w)| (m, true, s, w));
        let res = self.exec_un(op, &a.ct, or.forms, dis);
        let prog = Arc::new(Prog::Un { op, a: a.prog.clone() });
        let opname = format!("{:?}", op);
        let r = self.conform(&opname, &[self.meta(&a.ct)], pred, res, prog, or, None, dis);
        if let (true, UnOp::Negate, Some(st)) = (or.budget, op, r.as_ref()) {
            if let (Ok(b1), Ok(b2)) = (self.reported_budget(&a.ct), self.reported_budget(&st.ct)) {
                if b1 != b2 {
                    dis.push(Dis { class: "budget", key: format!("budget:Negate:{}:not-preserved", self.shape(&[self.meta(&a.ct)])), expected: format!("{b1} bits"), observed: format!("{b2} bits") });
                }
            }
        }
        r
    }

    pub fn step_bin(&self, op: BinOp, a: &St, b: &St, or: Oracles, dis: &mut Vec<Dis>) -> Option<St> {
        let pred = self.predict_bin(op, a, b);
        let res = self.exec_bin(op, &a.ct, &b.ct, or.forms, dis);
        let prog = Arc::new(Prog::Bin { op, a: a.prog.clone(), b: b.prog.clone() });
        let addops = if op != BinOp::Mul { Some((vec![a, b], 2)) } else { None };
        self.conform(&format!("{:?}", op), &[self.meta(&a.ct), self.meta(&b.ct)], pred, res, prog, or, addops, dis)
    }

    pub fn step_pl(&self, op: PlOp, a: &St, p: usize, ntt: bool, or: Oracles, dis: &mut Vec<Dis>) -> Option<St> {
        let pt = match self.plain_operand(p, ntt, a.ct.parms_id()) {
            Ok(pt) => pt,
            Err(e) => {
                dis.push(Dis { class: "accept", key: format!("accept:transform_plain_to_ntt:{}", panic_class(&e)), expected: "valid plaintext transforms".into(), observed: e });
                return None;
            }
        };
        let pred = self.predict_pl(op, a, p, ntt).map(|(m, s, w)| (m, true, s, w));
        let res = self.exec_pl(op, &a.ct, &pt, or.forms, dis);
        let prog = Arc::new(Prog::Pl { op, a: a.prog.clone(), p, ntt });
        let feat = self.plain_feature(p);
        self.conform(&format!("{:?}[{}{}]", op, feat, if ntt { ",ntt" } else { "" }), &[self.meta(&a.ct)], pred, res, prog, or, None, dis)
    }

    fn plain_feature(&self, p: usize) -> &'static str {
        let v = &self.plains[p];
        let nz = v.iter().filter(|&&x| x != 0).count();
        let upper = v.iter().any(|&x| x > self.t() / 2);
        match (nz, upper) {
            (0, _) => "zero",
            (1, false) => "mono-lo",
            (1, true) => "mono-hi",
            (_, false) => "dense-lo",
            (_, true) => "dense-hi",
        }
    }

    pub fn step_add_many(&self, items: &[&St], or: Oracles, dis: &mut Vec<Dis>) -> Option<St> {
        let t = self.t();
        let metas: Vec<Meta> = items.iter().map(|s| self.meta(&s.ct)).collect();
        let ok = metas.windows(2).all(|w| w[0].level == w[1].level && w[0].ntt == w[1].ntt);
        let mut m = items[0].m.clone();
        let mut w = items[0].wbits;
        let mut same = true;
        for s in &items[1..] {
            m = padd(&m, &s.m, t);
            same &= s.ct.correction_factor() == items[0].ct.correction_factor();
            w = w.max(s.wbits) + 1.0 + if same { 0.0 } else { self.lt() };
        }
        let pm = Meta { size: metas.iter().map(|m| m.size).max().unwrap(), ..metas[0] };
        let pred = ok.then(|| (pm, same, m, w));
        let cts: Vec<Ciphertext> = items.iter().map(|s| s.ct.clone()).collect();
        let res = guard(|| self.kit.eval.add_many_new(&cts));
        if or.forms {
            let r2 = guard(|| {
                let mut d = Ciphertext::new();
                self.kit.eval.add_many(&cts, &mut d);
                d
            });
            if res.as_ref().map(ct_fingerprint).ok() != r2.as_ref().map(ct_fingerprint).ok() {
                dis.push(Dis { class: "forms", key: "forms:AddMany:bytes-differ".into(), expected: "add_many and add_many_new agree".into(), observed: "differ".into() });
            }
        }
        let prog = Arc::new(Prog::AddMany { items: items.iter().map(|s| s.prog.clone()).collect() });
        let k = items.len();
        self.conform("AddMany", &metas, pred, res, prog, or, Some((items.to_vec(), k)), dis)
    }

    pub fn step_mul_many(&self, items: &[&St], or: Oracles, dis: &mut Vec<Dis>) -> Option<St> {
        let Some(rk) = self.relin1.as_ref() else { return None };
        let t = self.t();
        let metas: Vec<Meta> = items.iter().map(|s| self.meta(&s.ct)).collect();
        let ok = metas.iter().all(|m| m.level == metas[0].level && m.ntt == self.natural_ntt() && m.size == 2);
        let mut m = items[0].m.clone();
        let mut w = items[0].wbits;
        let mut cf = metas[0].cf;
        for s in &items[1..] {
            m = pmul(&m, &s.m, t);
            cf = mul_mod(cf, s.ct.correction_factor(), t);
            w = lse(self.mul_bits(w, s.wbits, 2, 2), self.ks_bits(metas[0].level)) + 1.0;
        }
        let pm = Meta { size: 2, cf: if self.bgv { cf } else { 1 }, ..metas[0] };
        let pred = ok.then(|| (pm, true, m, w));
        let cts: Vec<Ciphertext> = items.iter().map(|s| s.ct.clone()).collect();
        let res = guard(|| {
            let mut d = Ciphertext::new();
            self.kit.eval.multiply_many(&cts, rk, &mut d);
            d
        });
        let prog = Arc::new(Prog::MulMany { items: items.iter().map(|s| s.prog.clone()).collect() });
        self.conform(&format!("MultiplyMany[{}]", items.len()), &metas, pred, res, prog, or, None, dis)
    }

    /// Re-execute a program bottom-up with all requested oracles (replay).
    pub fn run_prog(&self, p: &Prog, or: Oracles, dis: &mut Vec<Dis>) -> Option<St> {
        match p {
            Prog::Fresh { msg, sym } => {
                if *msg >= self.msgs.len() {
                    return None;
                }
                self.step_fresh(*msg, *sym, or, dis)
            }
            Prog::Un { op, a } => {
                let a = self.run_prog(a, or, dis)?;
                self.step_un(*op, &a, or, dis)
            }
            Prog::Bin { op, a, b } => {
                let a = self.run_prog(a, or, dis)?;
                let b = self.run_prog(b, or, dis)?;
                self.step_bin(*op, &a, &b, or, dis)
            }
            Prog::Pl { op, a, p, ntt } => {
                let a = self.run_prog(a, or, dis)?;
                if *p >= self.plains.len() {
                    return None;
                }
                self.step_pl(*op, &a, *p, *ntt, or, dis)
            }
            Prog::AddMany { items } | Prog::MulMany { items } => {
                let sts: Option<Vec<St>> = items.iter().map(|i| self.run_prog(i, or, dis)).collect();
                let sts = sts?;
                let refs: Vec<&St> = sts.iter().collect();
                if matches!(p, Prog::AddMany { .. }) {
                    self.step_add_many(&refs, or, dis)
                } else {
                    self.step_mul_many(&refs, or, dis)
                }
            }
        }
    }
}

pub fn gcd_u64(mut a: u64, mut b: u64) -> u64 {
    while b != 0 {
        (a, b) = (b, a % b);
    }
    a
}

/// inverse of refmodel::poly::naive_ntt
pub fn naive_intt(ahat: &[u64], psi: u64, q: u64) -> Vec<u64> {
    let n = ahat.len();
    let bits = n.trailing_zeros();
    let ninv = inv_mod_u64(n as u64 % q, q).expect("N invertible");
    let psi_inv = inv_mod_u64(psi, q).expect("root invertible");
    (0..n)
        .map(|j| {
            let mut acc = 0u64;
            for (i, &v) in ahat.iter().enumerate() {
                let e = (2 * bit_reverse(i, bits) as u64 + 1) * j as u64;
                acc = add_mod(acc, mul_mod(v, pow_mod(psi_inv, e, q), q), q);
            }
            mul_mod(acc, ninv, q)
        })
        .collect()
}

// ---------------------------------------------------------------------------------------------
// exploration driver
// ---------------------------------------------------------------------------------------------

const CHUNK: usize = 100_000;
const MAX_ROUND: usize = 60_000_000;

#[derive(Clone)]
enum Tr {
    Un(UnOp, usize),
    Bin(BinOp, usize, usize),
    Pl(PlOp, usize, usize, bool),
    AddMany(Vec<usize>),
    MulMany(Vec<usize>),
}

pub struct E2Section {
    pub name: String,
    pub spec: ParamSpec,
    pub oracles: Oracles,
    /// which classes of disagreement this property judges
    pub judged: Vec<&'static str>,
    pub thorough: bool,
    pub seed: u64,
    /// concrete closure depth (1 or 2)
    pub depth: usize,
    /// run the abstract fixpoint
    pub abstract_closure: bool,
}

impl E2Section {
    fn exec(&self, sys: &Sys, states: &[St], tr: &Tr, dis: &mut Vec<Dis>) -> Option<St> {
        let or = self.oracles;
        match tr {
            Tr::Un(op, a) => sys.step_un(*op, &states[*a], or, dis),
            Tr::Bin(op, a, b) => sys.step_bin(*op, &states[*a], &states[*b], or, dis),
            Tr::Pl(op, a, p, ntt) => sys.step_pl(*op, &states[*a], *p, *ntt, or, dis),
            Tr::AddMany(v) => sys.step_add_many(&v.iter().map(|i| &states[*i]).collect::<Vec<_>>(), or, dis),
            Tr::MulMany(v) => sys.step_mul_many(&v.iter().map(|i| &states[*i]).collect::<Vec<_>>(), or, dis),
        }
    }

    fn tr_prog(&self, states: &[St], tr: &Tr) -> Value {
        let p = match tr {
            Tr::Un(op, a) => Prog::Un { op: *op, a: states[*a].prog.clone() },
            Tr::Bin(op, a, b) => Prog::Bin { op: *op, a: states[*a].prog.clone(), b: states[*b].prog.clone() },
            Tr::Pl(op, a, p, ntt) => Prog::Pl { op: *op, a: states[*a].prog.clone(), p: *p, ntt: *ntt },
            Tr::AddMany(v) => Prog::AddMany { items: v.iter().map(|i| states[*i].prog.clone()).collect() },
            Tr::MulMany(v) => Prog::MulMany { items: v.iter().map(|i| states[*i].prog.clone()).collect() },
        };
        json!({"spec": self.spec, "prog": p.to_json()})
    }

    /// Executes transitions in parallel; returns per transition (result state, disagreements).
    fn run_batch(&self, sys: &Sys, states: &[St], trs: &[Tr], threads: usize) -> Vec<(Option<St>, Vec<Dis>)> {
        let chunk = (trs.len() / (threads * 8)).max(1);
        let next = std::sync::atomic::AtomicUsize::new(0);
        let mut out: Vec<Option<(Option<St>, Vec<Dis>)>> = (0..trs.len()).map(|_| None).collect();
        let out_ptr = std::sync::Mutex::new(&mut out);
        std::thread::scope(|sc| {
            for _ in 0..threads {
                sc.spawn(|| {
                    heathcliff_thread_init();
                    loop {
                        let start = next.fetch_add(chunk, std::sync::atomic::Ordering::SeqCst);
                        if start >= trs.len() {
                            break;
                        }
                        let end = (start + chunk).min(trs.len());
                        let mut local = Vec::with_capacity(end - start);
                        for tr in &trs[start..end] {
                            let mut dis = vec![];
                            let r = match guard(|| self.exec(sys, states, tr, &mut dis)) {
                                Ok(r) => r,
                                Err(p) => {
                                    dis.push(Dis { class: "accept", key: format!("unexpected-panic:{}", panic_class(&p)), expected: "no panic outside guarded subject calls".into(), observed: p });
                                    None
                                }
                            };
                            local.push((r, dis));
                        }
                        let mut o = out_ptr.lock().unwrap();
                        for (i, l) in local.into_iter().enumerate() {
                            o[start + i] = Some(l);
                        }
                    }
                });
            }
        });
        out.into_iter().map(|o| o.unwrap()).collect()
    }

    fn record(&self, rep: &Report, case: impl Fn() -> Value, dis: Vec<Dis>) {
        for d in dis {
            if self.judged.contains(&d.class) {
                rep.add_violation(&self.name, case(), Fail { key: d.key, expected: d.expected, observed: d.observed });
            }
        }
    }

    fn conc_key(sys: &Sys, s: &St) -> u64 {
        h64(&(sys.meta(&s.ct), &s.m))
    }
}

impl AnySection for E2Section {
    fn name(&self) -> String {
        self.name.clone()
    }

    fn replay(&self, case: &Value) -> Result<CaseOut, String> {
        let spec: ParamSpec = serde_json::from_value(case["spec"].clone()).map_err(|e| e.to_string())?;
        let prog = Prog::from_json(&case["prog"])?;
        let sys = Sys::new(&spec, self.seed)?;
        sys.ring_dirty.store(self.oracles.ring && !self.oracles.forms, std::sync::atomic::Ordering::Relaxed);
        let mut dis = vec![];
        let _ = sys.run_prog(&prog, self.oracles, &mut dis);
        for d in dis {
            if self.judged.contains(&d.class) {
                return Ok(CaseOut::fail(d.key, d.expected, d.observed));
            }
        }
        Ok(CaseOut::pass(true, 0, 1))
    }

    fn run(self: Box<Self>, rep: &Arc<Report>) {
        let t0 = Instant::now();
        let threads = rep.cfg.threads;
        let sys = match guard(|| Sys::new(&self.spec, self.seed)) {
            Ok(Ok(s)) => s,
            Ok(Err(e)) | Err(e) => {
                rep.machinery_error(format!("section {}: cannot build the system: {e}", self.name));
                return;
            }
        };
        sys.ring_dirty.store(self.oracles.ring && !self.oracles.forms, std::sync::atomic::Ordering::Relaxed);
        if self.depth >= 3 {
            sys.dirty_per_transition.store(2, std::sync::atomic::Ordering::Relaxed);
        }
        let mut states: Vec<St> = vec![];
        let mut conc: HashMap<u64, usize> = HashMap::new();
        let mut transitions = 0u64;
        let mut refused = 0u64;
        let mut judged_dec = 0u64;

        // R0: fresh encryptions
        for msg in 0..sys.msgs.len() {
            for sym in [false, true] {
                let mut dis = vec![];
                let r = sys.step_fresh(msg, sym, self.oracles, &mut dis);
                transitions += 1;
                self.record(rep, || json!({"spec": self.spec, "prog": Prog::Fresh{msg, sym}.to_json()}), dis);
                if let Some(st) = r {
                    let k = h64(&(Self::conc_key(&sys, &st), sym));
                    if !conc.contains_key(&k) {
                        conc.insert(k, states.len());
                        states.push(st);
                    }
                }
            }
        }
        let r0 = states.len();
        let mut sample_progs: Vec<Value> = vec![];

        // phase A: concrete closure
        let np = sys.plains.len();
        let mut frontier_start = 0usize;
        let mut shallow_end = 0usize;
        let mut depth_done = 0;
        let mut capped = false;
        for round in 1..=self.depth {
            let known = states.len();
            let mut trs: Vec<Tr> = vec![];
            let is_new = |i: usize| i >= frontier_start;
            if round == 2 {
                shallow_end = known;
            }
            // round 3 (thorough): programs of depth 3 in which every binary operation has an operand of depth <= 1
            let partner_limit = if round >= 3 { shallow_end } else { known };
            for a in 0..known {
                if is_new(a) {
                    for op in UNOPS {
                        trs.push(Tr::Un(op, a));
                    }
                    for op in PLOPS {
                        for p in 0..np {
                            for ntt in [false, true] {
                                trs.push(Tr::Pl(op, a, p, ntt));
                            }
                        }
                    }
                }
                for b in 0..known {
                    if (is_new(a) && b < partner_limit) || (is_new(b) && a < partner_limit) {
                        for op in BINOPS {
                            trs.push(Tr::Bin(op, a, b));
                        }
                    }
                }
            }
            if round == 1 {
                // k-ary operations over R0
                for a in 0..r0 {
                    for b in 0..r0 {
                        for c in 0..r0 {
                            if a % 2 == 0 && b % 2 == 0 && c % 2 == 0 {
                                trs.push(Tr::AddMany(vec![a, b, c]));
                            }
                        }
                    }
                }
                for k in 2..=5usize {
                    trs.push(Tr::MulMany((0..k).map(|i| (2 * i + 2) % r0).collect()));
                }
                for k in [4usize, 5, 8] {
                    for off in 0..r0.min(6) {
                        trs.push(Tr::AddMany((0..k).map(|i| (off + 5 * i + 1) % r0).collect()));
                    }
                }
            }
            if rep.cfg.remaining().as_secs_f64() < 5.0 {
                capped = true;
                break;
            }
            if trs.len() > MAX_ROUND {
                capped = true;
                trs.truncate(MAX_ROUND);
            }
            frontier_start = known;
            let snapshot: Vec<St> = states.clone();
            for chunk in trs.chunks(CHUNK) {
              let results = self.run_batch(&sys, &snapshot, chunk, threads);
              for (tr, (st, dis)) in chunk.iter().zip(results) {
                transitions += 1;
                if !dis.is_empty() {
                    self.record(rep, || self.tr_prog(&snapshot, tr), dis);
                }
                match st {
                    None => refused += 1,
                    Some(st) => {
                        if sys.judged(st.wbits, sys.meta(&st.ct).level) {
                            judged_dec += 1;
                        }
                        let k = Self::conc_key(&sys, &st);
                        if !conc.contains_key(&k) {
                            conc.insert(k, states.len());
                            if sample_progs.len() < 3 && st.prog.depth() == round {
                                sample_progs.push(st.prog.to_json());
                            }
                            states.push(st);
                        }
                    }
                }
              }
            }
            depth_done = round;
        }
        let concrete_states = states.len();

        // phase B: abstract closure to fixpoint. For t <= 17 the key holds the factor itself (all
        // pairs of units are exercised); for larger t it holds the class {1, other}: the evaluator
        // branches on factors only through equality tests, the arithmetic on them is covered by the
        // direct enumeration of factor pairs (section bgv_balance_*).
        let full_cf = sys.t() <= 17;
        let akey = |m: Meta| if full_cf { m } else { Meta { cf: m.cf.min(2), ..m } };
        let mut abs: HashMap<Meta, usize> = HashMap::new();
        let mut abs_rounds = 0;
        let mut abs_fix = false;
        let mut abs_transitions = 0u64;
        if self.abstract_closure && !capped {
            let mut wit: Vec<St> = vec![];
            for s in &states {
                let m = akey(sys.meta(&s.ct));
                if !abs.contains_key(&m) {
                    abs.insert(m, wit.len());
                    wit.push(s.clone());
                }
            }
            let mut frontier_start = 0usize;
            loop {
                abs_rounds += 1;
                let known = wit.len();
                let metas: Vec<Meta> = wit.iter().map(|s| sys.meta(&s.ct)).collect();
                let mut trs: Vec<Tr> = vec![];
                let mut seen_groups: std::collections::HashSet<((usize, bool), (usize, bool))> = Default::default();
                for a in 0..known {
                    let new_a = a >= frontier_start;
                    if new_a {
                        for op in UNOPS {
                            trs.push(Tr::Un(op, a));
                        }
                        for op in PLOPS {
                            for p in 0..np {
                                for ntt in [false, true] {
                                    trs.push(Tr::Pl(op, a, p, ntt));
                                }
                            }
                        }
                    }
                    for b in 0..known {
                        if !(new_a || b >= frontier_start) {
                            continue;
                        }
                        let (ga, gb) = ((metas[a].level, metas[a].ntt), (metas[b].level, metas[b].ntt));
                        if ga == gb || seen_groups.insert((ga, gb)) {
                            for op in BINOPS {
                                trs.push(Tr::Bin(op, a, b));
                            }
                        }
                    }
                }
                if trs.is_empty() {
                    abs_fix = true;
                    break;
                }
                if rep.cfg.remaining().as_secs_f64() < 3.0 || abs_rounds > 24 + sys.levels.len() {
                    capped = true;
                    break;
                }
                if trs.len() > MAX_ROUND {
                    capped = true;
                    trs.truncate(MAX_ROUND);
                }
                frontier_start = known;
                let snapshot: Vec<St> = wit.clone();
                for chunk in trs.chunks(CHUNK) {
                  let results = self.run_batch(&sys, &snapshot, chunk, threads);
                  for (tr, (st, dis)) in chunk.iter().zip(results) {
                    abs_transitions += 1;
                    if !dis.is_empty() {
                        self.record(rep, || self.tr_prog(&snapshot, tr), dis);
                    }
                    match st {
                        None => refused += 1,
                        Some(st) => {
                            let m = akey(sys.meta(&st.ct));
                            if sys.judged(st.wbits, m.level) {
                                judged_dec += 1;
                            }
                            if !abs.contains_key(&m) {
                                abs.insert(m, wit.len());
                                wit.push(st);
                            }
                        }
                    }
                  }
                  if rep.cfg.remaining().as_secs_f64() < 2.0 {
                      capped = true;
                      break;
                  }
                }
                if wit.len() == known {
                    abs_fix = true;
                    break;
                }
            }
        }

        let total_states = concrete_states as u64 + abs.len() as u64;
        let total_tr = transitions + abs_transitions;
        rep.states.fetch_add(total_states, std::sync::atomic::Ordering::Relaxed);
        rep.transitions.fetch_add(total_tr, std::sync::atomic::Ordering::Relaxed);
        rep.steps.fetch_add(total_tr, std::sync::atomic::Ordering::Relaxed);
        rep.evaluations.fetch_add(total_tr, std::sync::atomic::Ordering::Relaxed);
        for (i, s) in states.iter().enumerate() {
            rep.mark_nontrivial(h64(&(self.name.as_str(), "c", i, Self::conc_key(&sys, s))));
            rep.mark_outcome(h64(&sys.meta(&s.ct)));
        }
        for m in abs.keys() {
            rep.mark_nontrivial(h64(&(self.name.as_str(), "a", m)));
        }
        for p in sample_progs {
            rep.sample(json!({"section": self.name, "program": p}));
        }
        let sizes: std::collections::BTreeSet<usize> = abs.keys().map(|m| m.size).collect();
        let cfs: std::collections::BTreeSet<u64> = abs.keys().map(|m| m.cf).collect();
        let lv: std::collections::BTreeSet<usize> = abs.keys().map(|m| m.level).collect();
        let exhaustive = !capped && depth_done == self.depth && (!self.abstract_closure || abs_fix);
        rep.push_section(SectionStat {
            name: self.name.clone(),
            engine: "E2".into(),
            cases: total_tr,
            nontrivial: total_states,
            skipped: 0,
            outcomes: abs.len() as u64,
            steps: total_tr,
            states: total_states,
            transitions: total_tr,
            exhaustive,
            bound: format!(
                "{}: concrete closure depth {} of {} ({} states, {} transitions, {} refused), abstract closure {} after {} rounds ({} abstract states: sizes {:?}, levels {:?}, {} factors; {} transitions); decrypt judged on {} results",
                self.spec.label(), depth_done, self.depth, concrete_states, transitions, refused,
                if !self.abstract_closure { "not requested" } else if abs_fix { "reached FIXPOINT" } else { "NOT converged (capped)" },
                abs_rounds, abs.len(), sizes, lv, cfs.len(), abs_transitions, judged_dec
            ),
            wall_s: t0.elapsed().as_secs_f64(),
            extra: json!({"r0": r0, "concrete_states": concrete_states, "abstract_states": abs.len(), "refused": refused, "decrypt_judged": judged_dec,
                "budget_checks": sys.budget_checks.load(std::sync::atomic::Ordering::Relaxed), "zero_budget_states": sys.zero_budget.load(std::sync::atomic::Ordering::Relaxed),
                "min_positive_budget": sys.min_positive_budget.load(std::sync::atomic::Ordering::Relaxed)}),
        });
    }
}

/// Parameter sets shared by the properties decided with E2 (C02, C06a, C07).
pub fn param_sets(cfg: &RunCfg) -> Vec<(String, ParamSpec, usize, bool)> {
    let th = cfg.thorough();
    let mut v = vec![];
    // P1: BFV, N=4, batching t=17 (fast lift), four 60-bit data primes + special prime
    v.push(("bfv_p1".to_string(), ParamSpec::new(Scheme::BFV, 4, chain(4, &[60, 60, 60, 60, 60]), 17), if th { 3 } else { 2 }, true));
    // P2: BFV, power-of-two plain modulus, descending order
    v.push(("bfv_p2_pow2".to_string(), ParamSpec::new(Scheme::BFV, 4, chain(4, &[59, 50, 50, 40]), 16), 2, true));
    // P3: BFV, t larger than the smallest prime (multi-precision lift), ascending order
    v.push(("bfv_p3_mplift".to_string(), ParamSpec::new(Scheme::BFV, 8, { let mut q = vec![97u64]; q.extend(chain(8, &[55, 60, 60])); q }, 257), if th { 3 } else { 2 }, true));
    // P4: BGV, six 60-bit primes, t=17 (all 16 units as correction factors)
    v.push(("bgv_p4".to_string(), ParamSpec::new(Scheme::BGV, 4, chain(4, &[60, 60, 60, 60, 60, 60]), 17), if th { 3 } else { 2 }, true));
    // P5: BGV, t=5: small unit group, abstract fixpoint in the quick tier, depth 2
    v.push(("bgv_p5_t5".to_string(), ParamSpec::new(Scheme::BGV, 4, chain(4, &[60, 60, 60, 60, 60]), 5), if th { 3 } else { 2 }, true));
    // P6: BGV, multi-precision lift
    v.push(("bgv_p6_mplift".to_string(), ParamSpec::new(Scheme::BGV, 8, { let mut q = vec![97u64]; q.extend(chain(8, &[55, 60, 60, 60])); q }, 257), if th { 3 } else { 2 }, true));
    // P7: single modulus: no key switching, no lower level
    v.push(("bfv_p7_single".to_string(), ParamSpec::new(Scheme::BFV, 4, chain(4, &[60]), 17), 2, true));
    // P8: special prime used for encryption (first level = key level)
    let mut sp = ParamSpec::new(Scheme::BGV, 4, chain(4, &[60, 60, 60]), 17);
    sp.special_enc = true;
    v.push(("bgv_p8_spenc".to_string(), sp, 2, true));
    // a 30-bit plain modulus above the first prime (q0 < t): the rounding correction of BFV encryption uses q mod t, and
    // (q mod t) mod q0 differs from it only here (seeded changes C07-C / C13-D / C01-A are this mutation)
    v.push(("bfv_p22_big_t".to_string(), ParamSpec::new(Scheme::BFV, 4, chain(4, &[25, 50, 50]), crate::refmodel::bigu::primes_1_mod(8, 30, 1)[0]), 1, true));
    // every prime = 1 (mod 2N*t): the BGV factor stays 1 through every modulus switch, q_last^-1 mod t == 1 (seeded change C10-D)
    v.push(("bgv_p23_q_1_mod_t".to_string(), ParamSpec::new(Scheme::BGV, 4, crate::refmodel::bigu::primes_1_mod(8 * 17, 50, 4), 17), 1, true));
    // primes just above 2^(k-1): bits(product) < sum of bits(prime) (the library's own prime search never produces these)
    v.push(("bfv_p15_low_primes".to_string(), ParamSpec::new(Scheme::BFV, 4, chain_low(4, &[30, 30, 30, 30]), 17), 1, true));
    v.push(("bgv_p16_low_primes".to_string(), ParamSpec::new(Scheme::BGV, 4, chain_low(4, &[40, 40, 40]), 17), 1, true));
    // complete plaintext space for a tiny (N, t)
    v.push(("bfv_p13_all_plaintexts".to_string(), ParamSpec::new(Scheme::BFV, 2, chain(2, &[40, 40, 40]), 5), 1, true));
    v.push(("bgv_p14_all_plaintexts".to_string(), ParamSpec::new(Scheme::BGV, 2, chain(2, &[40, 40, 40]), 5), 1, true));
    // short chains: programs run the budget down to zero
    v.push(("bfv_p11_short".to_string(), ParamSpec::new(Scheme::BFV, 4, chain(4, &[30, 27, 30]), 17), 2, true));
    v.push(("bgv_p12_short".to_string(), ParamSpec::new(Scheme::BGV, 4, chain(4, &[40, 30, 40]), 17), if th { 3 } else { 2 }, true));
    // many primes at a tiny degree: accumulation counters / per-prime tables sized for "the usual" chain length (seeded
    // changes C04-E: lazy-reduction bound hit at exactly 8 data primes; C14-F: a table of 8 entries). The chain passes through
    // EVERY number of data primes from k-1 down to 1 in the abstract closure.
    v.push(("bfv_p24_10primes".to_string(), ParamSpec::new(Scheme::BFV, 4, chain(4, &[40; 10]), 17), 1, true));
    // production-size degree (blocked / tiled code paths, tables indexed beyond 64 / 256): depth-1 closure + abstract fixpoint
    v.push(("bfv_p26_n1024".to_string(), ParamSpec::new(Scheme::BFV, 1024, chain(1024, &[50, 50, 50, 60]), 65537), 1, true));
    if th {
        v.push(("bfv_p29_n4096_9primes".to_string(), ParamSpec::new(Scheme::BFV, 4096, chain(4096, &[50, 50, 50, 50, 50, 50, 50, 50, 60]), 65537), 1, true));
        v.push(("bgv_p30_n8192".to_string(), ParamSpec::new(Scheme::BGV, 8192, chain(8192, &[55, 55, 55, 60]), 65537), 1, true));
        v.push(("bgv_p25_18primes".to_string(), ParamSpec::new(Scheme::BGV, 4, chain(4, &[45; 18]), 17), 1, true));
        v.push(("bfv_p28_34primes".to_string(), ParamSpec::new(Scheme::BFV, 4, chain(4, &[30; 34]), 17), 1, true));
        v.push(("bgv_p27_n512".to_string(), ParamSpec::new(Scheme::BGV, 512, chain(512, &[50, 50, 50, 60]), 12289), 1, true));
    }
    if th {
        v.push(("bfv_p9_n16".to_string(), ParamSpec::new(Scheme::BFV, 16, chain(16, &[60, 60, 60, 60]), 97), 2, true));
        v.push(("bgv_p10_two".to_string(), ParamSpec::new(Scheme::BGV, 4, chain(4, &[60, 60]), 17), 2, true));
        v.push(("bgv_p17_n16".to_string(), ParamSpec::new(Scheme::BGV, 16, chain(16, &[60, 60, 60, 60, 60]), 97), 2, true));
        v.push(("bfv_p18_n32".to_string(), ParamSpec::new(Scheme::BFV, 32, chain(32, &[60, 60, 60, 60]), 193), 2, true));
        v.push(("bgv_p19_asc".to_string(), ParamSpec::new(Scheme::BGV, 8, chain(8, &[30, 40, 50, 60]), 17), 2, true));
        v.push(("bfv_p20_desc_small_special".to_string(), ParamSpec::new(Scheme::BFV, 8, chain(8, &[60, 50, 40, 30]), 17), 2, true));
        v.push(("bgv_p21_t257_depth2".to_string(), ParamSpec::new(Scheme::BGV, 4, chain(4, &[60, 60, 60, 60, 60, 60]), 257), 2, true));
    }
    v
}
