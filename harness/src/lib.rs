//! hcv — bounded exhaustive exploration harness for Heathcliff (see /verif/DESIGN.md).
pub mod e2;
pub mod e2c;
pub mod engine;
pub mod he;
pub mod props;
pub mod refmodel;
pub mod sched;
