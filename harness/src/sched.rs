//! E3 — controlled scheduler: stateless depth-first exploration of thread schedules on the real code.
//!
//! The three lazily grown caches of the subject use `verif_hooks::RwLock` in the hooked build;
//! every acquisition reports to the installed `Scheduler` *before* it happens and every release
//! after it happened. Exactly one controlled thread runs at a time. A scheduling decision is
//! taken at every acquisition, at thread start and at thread end; the enabled set is computed
//! from the tracked lock state (a thread is enabled iff its pending acquisition cannot block), so
//! blocking is modelled exactly and "no enabled thread, not all finished" is a deadlock.
//! std's futex RwLock is writer-preferring: a writer that has called write() while readers hold
//! the lock blocks *new* read acquisitions (also a recursive one by a thread that already holds a
//! read guard). The model has an explicit decision "thread t enters write() and blocks in it", after
//! which reads of that lock are disabled until the writer got through — this is what makes a
//! read-guard-held-across-an-inner-read deadlock visible (seeded change C17-D). On the unchanged
//! tree no decision point lies inside a read section, so the extra choice never arises.
//! Enumeration is by iterated preemption bound; each execution runs to completion; schedules are
//! strings "t0,t1,…" of chosen thread ids, replayed exactly (divergence = machinery error).

use heathcliff::verif_hooks::{self, LockOp, Scheduler};
use std::collections::HashMap;
use std::sync::{Arc, Condvar, Mutex};
use std::time::{Duration, Instant};

#[derive(Clone, Copy, Debug, PartialEq, Eq)]
enum Status {
    NotStarted,
    Waiting,
    Running,
    Finished,
}

#[derive(Default, Clone, Debug)]
struct LockState {
    readers: Vec<usize>,
    writer: Option<usize>,
}

#[derive(Clone, Debug)]
pub struct Decision {
    pub enabled: Vec<usize>,
    pub chosen: usize,
    /// the previously running thread is in `enabled` (choosing another one is a preemption)
    pub running_enabled: bool,
}

struct State {
    status: Vec<Status>,
    pending: Vec<Option<(usize, LockOp)>>,
    /// thread has called write() on a lock that is still held by readers: it is blocked inside the
    /// lock, and (std's RwLock on this platform is writer-preferring) new read acquisitions of that
    /// lock queue behind it
    committed: Vec<bool>,
    current: Option<usize>,
    locks: HashMap<usize, LockState>,
    prefix: Vec<usize>,
    decisions: Vec<Decision>,
    deadlock: bool,
    abort: bool,
    diverged: Option<String>,
    lock_ops: u64,
    observations: Vec<u64>,
}

pub struct Sched {
    st: Mutex<State>,
    cv: Condvar,
    observer: Mutex<Option<Box<dyn Fn() -> u64 + Send>>>,
}

thread_local! {
    static TID: std::cell::Cell<usize> = const { std::cell::Cell::new(usize::MAX) };
}

struct AbortExecution;

impl Sched {
    fn new(n: usize, prefix: Vec<usize>) -> Arc<Sched> {
        Arc::new(Sched {
            st: Mutex::new(State {
                status: vec![Status::NotStarted; n],
                pending: vec![None; n],
                committed: vec![false; n],
                current: None,
                locks: HashMap::new(),
                prefix,
                decisions: vec![],
                deadlock: false,
                abort: false,
                diverged: None,
                lock_ops: 0,
                observations: vec![],
            }),
            cv: Condvar::new(),
            observer: Mutex::new(None),
        })
    }

    fn lock_free(st: &State, id: usize) -> bool {
        st.locks.get(&id).map(|l| l.writer.is_none() && l.readers.is_empty()).unwrap_or(true)
    }

    /// the thread can perform its pending operation right now
    fn can_run(st: &State, t: usize) -> bool {
        if st.status[t] != Status::Waiting {
            return false;
        }
        match st.pending[t] {
            None => true,
            Some((id, LockOp::Read)) => {
                let no_writer = st.locks.get(&id).map(|l| l.writer.is_none()).unwrap_or(true);
                // writer preference: a writer already blocked inside write() makes new readers wait
                let blocked_writer = (0..st.status.len()).any(|u| u != t && st.committed[u] && matches!(st.pending[u], Some((l, LockOp::Write)) if l == id));
                no_writer && !blocked_writer
            }
            Some((id, LockOp::Write)) => Self::lock_free(st, id),
            Some(_) => true,
        }
    }

    /// the thread can call write() now and block inside it (the lock is held by readers)
    fn can_commit(st: &State, t: usize) -> bool {
        st.status[t] == Status::Waiting && !st.committed[t] && matches!(st.pending[t], Some((id, LockOp::Write)) if !Self::lock_free(st, id))
    }

    /// Called with the state locked by a thread that has just become Waiting / Finished: pick who runs next.
    /// A choice is either "thread t performs its pending operation" or "thread t calls write() and blocks in it".
    fn decide(&self, st: &mut State, me: usize) {
        let n = st.status.len();
        loop {
            // canonical order: the thread that was running first (if it has a move), then ascending ids
            let mut enabled: Vec<usize> = vec![];
            let me_enabled = Self::can_run(st, me) || Self::can_commit(st, me);
            if me_enabled {
                enabled.push(me);
            }
            for t in 0..n {
                if t != me && (Self::can_run(st, t) || Self::can_commit(st, t)) {
                    enabled.push(t);
                }
            }
            if enabled.is_empty() {
                if st.status.iter().any(|s| *s != Status::Finished) {
                    st.deadlock = true;
                    st.abort = true;
                }
                st.current = None;
                self.cv.notify_all();
                return;
            }
            // observation at the decision point (only when no writer holds a tracked lock)
            if st.locks.values().all(|l| l.writer.is_none()) {
                if let Some(obs) = self.observer.lock().unwrap().as_ref() {
                    verif_hooks::set_scheduled_thread(false);
                    let v = obs();
                    verif_hooks::set_scheduled_thread(true);
                    st.observations.push(v);
                }
            }
            let i = st.decisions.len();
            let choice = if i < st.prefix.len() {
                let c = st.prefix[i];
                if c >= enabled.len() {
                    st.diverged = Some(format!("decision {i}: prefix asks for choice {c} of {} enabled", enabled.len()));
                    st.abort = true;
                    st.current = None;
                    self.cv.notify_all();
                    return;
                }
                c
            } else {
                0
            };
            let chosen = enabled[choice];
            st.decisions.push(Decision { enabled, chosen: choice, running_enabled: me_enabled });
            if Self::can_run(st, chosen) {
                st.current = Some(chosen);
                self.cv.notify_all();
                return;
            }
            // the chosen thread enters write() and blocks there; decide again
            st.committed[chosen] = true;
        }
    }

    fn wait_turn<'a>(&'a self, mut st: std::sync::MutexGuard<'a, State>, me: usize) -> std::sync::MutexGuard<'a, State> {
        loop {
            if st.abort {
                drop(st);
                std::panic::resume_unwind(Box::new(AbortExecution));
            }
            if st.current == Some(me) {
                return st;
            }
            let (g, _) = self.cv.wait_timeout(st, Duration::from_millis(200)).unwrap();
            st = g;
        }
    }

    /// thread start: register and wait to be scheduled
    fn thread_start(&self, me: usize, n_total: usize) {
        TID.with(|t| t.set(me));
        let mut st = self.st.lock().unwrap();
        st.status[me] = Status::Waiting;
        st.pending[me] = None;
        // the last thread to arrive takes the initial decision
        if st.status.iter().filter(|s| **s == Status::Waiting).count() == n_total && st.current.is_none() && st.decisions.is_empty() {
            // "me" was not running before: make the canonical order plain ascending by deciding as thread 0's predecessor
            self.decide_initial(&mut st);
        }
        let mut st = self.wait_turn(st, me);
        st.status[me] = Status::Running;
    }

    fn decide_initial(&self, st: &mut State) {
        let n = st.status.len();
        let enabled: Vec<usize> = (0..n).collect();
        let choice = if !st.prefix.is_empty() { st.prefix[0].min(n - 1) } else { 0 };
        st.decisions.push(Decision { enabled: enabled.clone(), chosen: choice, running_enabled: false });
        st.current = Some(enabled[choice]);
        self.cv.notify_all();
    }

    fn thread_end(&self, me: usize) {
        let mut st = self.st.lock().unwrap();
        st.status[me] = Status::Finished;
        st.pending[me] = None;
        // locks still held by a finished thread would be a leak in the subject; release them in the model
        for l in st.locks.values_mut() {
            l.readers.retain(|r| *r != me);
            if l.writer == Some(me) {
                l.writer = None;
            }
        }
        if !st.abort {
            self.decide(&mut st, me);
        }
    }
}

impl Scheduler for Sched {
    fn before(&self, lock_id: usize, op: LockOp) {
        let me = TID.with(|t| t.get());
        if me == usize::MAX {
            return;
        }
        let mut st = self.st.lock().unwrap();
        st.lock_ops += 1;
        st.status[me] = Status::Waiting;
        st.pending[me] = Some((lock_id, op));
        self.decide(&mut st, me);
        let mut st = self.wait_turn(st, me);
        // acquire in the model; the real acquisition follows immediately and cannot block
        let l = st.locks.entry(lock_id).or_default();
        match op {
            LockOp::Read => l.readers.push(me),
            LockOp::Write => l.writer = Some(me),
            _ => {}
        }
        st.committed[me] = false;
        st.status[me] = Status::Running;
        st.pending[me] = None;
    }

    fn after_release(&self, lock_id: usize, op: LockOp) {
        let me = TID.with(|t| t.get());
        if me == usize::MAX {
            return;
        }
        let mut st = self.st.lock().unwrap();
        let l = st.locks.entry(lock_id).or_default();
        match op {
            LockOp::ReadRelease => {
                if let Some(p) = l.readers.iter().position(|r| *r == me) {
                    l.readers.remove(p);
                }
            }
            LockOp::WriteRelease => {
                if l.writer == Some(me) {
                    l.writer = None;
                }
            }
            _ => {}
        }
    }
}

pub struct Execution<R> {
    /// per thread: Ok(result) or Err(panic message)
    pub results: Vec<Result<R, String>>,
    pub decisions: Vec<Decision>,
    pub deadlock: bool,
    pub hang: bool,
    pub diverged: Option<String>,
    pub lock_ops: u64,
    pub observations: Vec<u64>,
}

impl<R> Execution<R> {
    pub fn schedule(&self) -> String {
        self.decisions.iter().map(|d| d.enabled[d.chosen].to_string()).collect::<Vec<_>>().join(",")
    }
    pub fn choices(&self) -> Vec<usize> {
        self.decisions.iter().map(|d| d.chosen).collect()
    }
    pub fn preemptions(&self) -> usize {
        self.decisions.iter().filter(|d| d.running_enabled && d.chosen != 0).count()
    }
}

static EXEC_LOCK: Mutex<()> = Mutex::new(());

/// Runs the bodies under the controlled scheduler following `prefix` (choice indices), then default.
pub fn run_schedule<R: Send + 'static>(
    bodies: Vec<Box<dyn FnOnce() -> R + Send>>,
    prefix: Vec<usize>,
    observer: Option<Box<dyn Fn() -> u64 + Send>>,
    horizon: Duration,
) -> Execution<R> {
    let _g = EXEC_LOCK.lock().unwrap_or_else(|e| e.into_inner());
    let n = bodies.len();
    let sched = Sched::new(n, prefix);
    *sched.observer.lock().unwrap() = observer;
    verif_hooks::set_scheduler(Some(sched.clone() as Arc<dyn Scheduler>));
    let mut handles = vec![];
    for (tid, body) in bodies.into_iter().enumerate() {
        let s = sched.clone();
        handles.push(
            std::thread::Builder::new()
                .stack_size(32 << 20)
                .spawn(move || {
                    verif_hooks::set_scheduled_thread(true);
                    let r = std::panic::catch_unwind(std::panic::AssertUnwindSafe(|| {
                        s.thread_start(tid, n);
                        body()
                    }));
                    verif_hooks::set_scheduled_thread(false);
                    let out = match r {
                        Ok(v) => Ok(v),
                        Err(p) => {
                            if p.downcast_ref::<AbortExecution>().is_some() {
                                Err("execution aborted (deadlock or divergence)".to_string())
                            } else {
                                Err(crate::engine::guard(|| std::panic::resume_unwind(p)).err().unwrap_or_default())
                            }
                        }
                    };
                    s.thread_end(tid);
                    out
                })
                .expect("spawn"),
        );
    }
    let t0 = Instant::now();
    let mut hang = false;
    loop {
        if handles.iter().all(|h| h.is_finished()) {
            break;
        }
        if t0.elapsed() > horizon {
            hang = true;
            let mut st = sched.st.lock().unwrap();
            st.abort = true;
            sched.cv.notify_all();
            drop(st);
            // give aborted threads a moment; threads stuck inside the subject are leaked
            std::thread::sleep(Duration::from_millis(300));
            break;
        }
        std::thread::sleep(Duration::from_micros(50));
    }
    let mut results = vec![];
    for h in handles {
        if h.is_finished() {
            results.push(h.join().unwrap_or_else(|_| Err("thread panicked outside the body".into())));
        } else {
            results.push(Err("thread did not reach a scheduling point or finish within the horizon".into()));
        }
    }
    verif_hooks::set_scheduler(None);
    let st = sched.st.lock().unwrap();
    Execution {
        results,
        decisions: st.decisions.clone(),
        deadlock: st.deadlock,
        hang,
        diverged: st.diverged.clone(),
        lock_ops: st.lock_ops,
        observations: st.observations.clone(),
    }
}

pub struct ExploreStats {
    pub executions: u64,
    pub max_decisions: usize,
    pub max_preemptions: usize,
    pub bound_completed: Option<usize>,
    pub capped: bool,
}

/// Depth-first enumeration of all schedules with at most `bound` preemptions (None = unbounded).
/// `check` is called for every complete execution; return false to stop early.
pub fn explore<R: Send + 'static>(
    make: &dyn Fn() -> (Vec<Box<dyn FnOnce() -> R + Send>>, Option<Box<dyn Fn() -> u64 + Send>>),
    bound: Option<usize>,
    max_executions: u64,
    deadline: Instant,
    check: &mut dyn FnMut(&Execution<R>) -> bool,
) -> ExploreStats {
    let mut stack: Vec<Vec<usize>> = vec![vec![]];
    let mut stats = ExploreStats { executions: 0, max_decisions: 0, max_preemptions: 0, bound_completed: None, capped: false };
    while let Some(prefix) = stack.pop() {
        if stats.executions >= max_executions || Instant::now() > deadline {
            stats.capped = true;
            return stats;
        }
        let (bodies, obs) = make();
        let ex = run_schedule(bodies, prefix.clone(), obs, Duration::from_secs(300));
        stats.executions += 1;
        stats.max_decisions = stats.max_decisions.max(ex.decisions.len());
        stats.max_preemptions = stats.max_preemptions.max(ex.preemptions());
        let go_on = check(&ex);
        if !go_on {
            stats.capped = true;
            return stats;
        }
        if ex.diverged.is_some() || ex.hang {
            continue;
        }
        // children: alternatives at decision points after the prefix
        let choices = ex.choices();
        let mut pre = 0usize;
        let mut pre_before: Vec<usize> = Vec::with_capacity(ex.decisions.len());
        for d in &ex.decisions {
            pre_before.push(pre);
            if d.running_enabled && d.chosen != 0 {
                pre += 1;
            }
        }
        for i in (prefix.len()..ex.decisions.len()).rev() {
            let d = &ex.decisions[i];
            for alt in (1..d.enabled.len()).rev() {
                let cost = pre_before[i] + if d.running_enabled { 1 } else { 0 };
                if let Some(b) = bound {
                    if cost > b {
                        continue;
                    }
                }
                let mut p = choices[..i].to_vec();
                p.push(alt);
                stack.push(p);
            }
        }
    }
    stats.bound_completed = bound.or(Some(usize::MAX));
    stats
}
