//! E3 (controlled scheduler) — filled in with C17.
