use hcv::engine::*;
use std::sync::Arc;
use std::time::{Duration, Instant};

/// Replays one case on a helper thread; a case that does not return within the deadline is a
/// non-termination violation (a hang must fail the check, not hang it).
fn replay_with_deadline(sec: Box<dyn AnySection>, case: serde_json::Value, secs: u64) -> Result<CaseOut, String> {
    // deadline in CPU time of the replaying thread (a hang burns CPU; a loaded machine must not turn a healthy replay into
    // "non-termination"), with 15x the deadline in wall time as the backstop for a case that blocks
    let (tx, rx) = std::sync::mpsc::channel();
    let (ctx, crx) = std::sync::mpsc::channel();
    std::thread::Builder::new()
        .stack_size(64 << 20)
        .spawn(move || {
            let _ = ctx.send(hcv::engine::cpuclock::own_clock());
            let r = sec.replay(&case);
            let _ = tx.send(r);
        })
        .map_err(|e| e.to_string())?;
    let clock = crx.recv_timeout(Duration::from_secs(60)).unwrap_or(-1);
    let t0 = Instant::now();
    loop {
        match rx.recv_timeout(Duration::from_millis(50)) {
            Ok(r) => return r,
            Err(std::sync::mpsc::RecvTimeoutError::Disconnected) => return Err("replay thread died".into()),
            Err(std::sync::mpsc::RecvTimeoutError::Timeout) => {}
        }
        let cpu = hcv::engine::cpuclock::read_ns(clock).map(Duration::from_nanos);
        let wall = t0.elapsed();
        let over = match cpu {
            Some(c) => c > Duration::from_secs(secs) || wall > Duration::from_secs(secs * 15),
            None => wall > Duration::from_secs(secs * 4),
        };
        if over {
            return Ok(CaseOut::fail("replay:nontermination", format!("the replayed case returns within {secs} s of CPU time"), "still running at the deadline"));
        }
    }
}

fn usage() -> ! {
    eprintln!("usage: hcv <ID> quick|thorough | hcv <ID> --replay FILE | hcv --selftest | hcv --list");
    std::process::exit(2)
}

fn main() {
    let args: Vec<String> = std::env::args().skip(1).collect();
    if args.is_empty() {
        usage();
    }
    install_panic_hook();
    if args[0] == "--selftest" {
        match hcv::refmodel::bigu::selftest().and_then(|n| hcv::refmodel::ntt::selftest_fast().map(|m| n + m as u64)) {
            Ok(n) => {
                println!("refmodel selftest ok ({n} pairs)");
                std::process::exit(0)
            }
            Err(e) => {
                eprintln!("refmodel selftest FAILED: {e}");
                std::process::exit(2)
            }
        }
    }
    if args[0] == "--list" {
        for id in hcv::props::ids() {
            println!("{id}");
        }
        return;
    }
    if args.len() < 2 {
        usage();
    }
    let id = args[0].to_uppercase();
    let seed: u64 = std::env::var("VERIF_SEED").ok().and_then(|s| s.parse().ok()).unwrap_or(1);
    let threads: usize = std::env::var("VERIF_THREADS").ok().and_then(|s| s.parse().ok()).unwrap_or_else(|| {
        std::thread::available_parallelism().map(|n| n.get()).unwrap_or(8)
    });
    if args[1] == "--replay" {
        let path = args.get(2).unwrap_or_else(|| usage());
        let doc: serde_json::Value = match std::fs::read_to_string(path).ok().and_then(|s| serde_json::from_str(&s).ok()) {
            Some(d) => d,
            None => {
                eprintln!("cannot read replay file {path}");
                std::process::exit(2)
            }
        };
        let section = doc["section"].as_str().unwrap_or("").to_string();
        let seed = doc["seed"].as_u64().unwrap_or(seed);
        let cfg = RunCfg { id: id.clone(), tier: Tier::Quick, seed, threads, budget: Duration::from_secs(600), started: Instant::now() };
        let secs = hcv::props::sections(&id, &cfg).unwrap_or_else(|| {
            eprintln!("unknown property {id}");
            std::process::exit(2)
        });
        let Some(sec) = secs.into_iter().find(|s| s.name() == section) else {
            eprintln!("section {section} not found for {id}");
            std::process::exit(2)
        };
        match replay_with_deadline(sec, doc["case"].clone(), 60) {
            Ok(out) => match out.verdict {
                Verdict::Fail(f) => {
                    println!("VIOLATION property={} replay={}", id, path);
                    eprintln!("  key={}\n  expected: {}\n  observed: {}", f.key, f.expected, f.observed);
                    std::process::exit(1)
                }
                Verdict::Pass => {
                    println!("replay: case passes");
                    std::process::exit(0)
                }
                Verdict::Skip(w) => {
                    println!("replay: case outside domain ({w})");
                    std::process::exit(0)
                }
            },
            Err(e) => {
                eprintln!("replay error: {e}");
                std::process::exit(2)
            }
        }
    }
    let tier = match args[1].as_str() {
        "quick" => Tier::Quick,
        "thorough" => Tier::Thorough,
        _ => usage(),
    };
    let budget_s: u64 = std::env::var("VERIF_BUDGET_S").ok().and_then(|s| s.parse().ok()).unwrap_or(if tier == Tier::Quick { 120 } else { 2400 });
    let cfg = RunCfg { id: id.clone(), tier, seed, threads, budget: Duration::from_secs(budget_s), started: Instant::now() };
    if let Err(e) = hcv::refmodel::bigu::selftest().and_then(|_| hcv::refmodel::ntt::selftest_fast()) {
        eprintln!("refmodel selftest FAILED: {e}");
        std::process::exit(2);
    }
    let rep = Arc::new(Report::new(cfg.clone(), hcv::props::level(&id)));
    let Some(secs) = hcv::props::sections(&id, &cfg) else {
        eprintln!("unknown property {id}");
        std::process::exit(2)
    };
    hcv::props::describe(&id, &rep);
    let only = std::env::var("VERIF_SECTION").ok();
    // regression: every recorded replay of a repaired defect is re-executed first
    {
        let dir = verif_root().join("replays_fixed").join(&id);
        let mut files: Vec<_> = std::fs::read_dir(&dir).map(|d| d.filter_map(|e| e.ok()).map(|e| e.path()).collect()).unwrap_or_default();
        files.sort();
        let mut n = 0u64;
        for f in files {
            let Some(doc) = std::fs::read_to_string(&f).ok().and_then(|s| serde_json::from_str::<serde_json::Value>(&s).ok()) else {
                rep.machinery_error(format!("unreadable replay {}", f.display()));
                continue;
            };
            let section = doc["section"].as_str().unwrap_or("");
            let Some(sec) = hcv::props::sections(&id, &cfg).unwrap_or_default().into_iter().find(|s| s.name() == section) else {
                rep.machinery_error(format!("replay {}: section {section} does not exist", f.display()));
                continue;
            };
            match replay_with_deadline(sec, doc["case"].clone(), 60) {
                Ok(out) => {
                    n += 1;
                    rep.record(section, h64(&f.display().to_string()), || doc["case"].clone(), &out);
                }
                Err(e) => rep.machinery_error(format!("replay {}: {e}", f.display())),
            }
        }
        eprintln!("[{id}] replayed {n} recorded cases of repaired defects");
    }
    for s in secs {
        if let Some(o) = &only {
            if !s.name().contains(o.as_str()) {
                continue;
            }
        }
        s.run(&rep);
    }
    let code = finish(&rep);
    std::process::exit(code);
}
