#!/usr/bin/env python3
"""Rewrites the 'as built' tables of DESIGN.md from evidence/*.json and seeded/*/meta.json
(between the markers <!-- BEGIN:<name> --> and <!-- END:<name> -->)."""
import json, glob, os, re

ROOT = os.path.dirname(os.path.dirname(os.path.abspath(__file__)))

def evidence_table():
    rows = ["| id | tier | sections | cases / schedules | impl. steps compared | states | transitions | distinct outcomes | exhaustive | wall (s) |",
            "|----|------|----------|-------------------|----------------------|--------|-------------|-------------------|------------|----------|"]
    for f in sorted(glob.glob(os.path.join(ROOT, "evidence", "C*.json"))):
        e = json.load(open(f)); c = e["coverage"]
        rows.append("| %s | %s | %d | %s | %s | %s | %s | %s | %s | %.1f |" % (
            e["property_id"], e["tier"], len(c.get("sections", [])), f"{c.get('evaluations',0):,}", f"{c.get('traces_validated_against_impl',0):,}",
            f"{c.get('states',0):,}", f"{c.get('transitions',0):,}", f"{c.get('distinct_outcomes',0):,}", c.get("exhaustive"), e["wall_s"]))
    return "\n".join(rows)

def seeded_table():
    rows = ["| seeded change | what it breaks (site) | needs to manifest | repo tests with change | demo (without / with) | own check: exit, first signature |",
            "|---------------|-----------------------|-------------------|------------------------|-----------------------|----------------------------------|"]
    for d in sorted(glob.glob(os.path.join(ROOT, "seeded", "C*-*"))):
        mf = os.path.join(d, "meta.json")
        if not os.path.exists(mf):
            continue
        m = json.load(open(mf)); cb = m.get("confirmed_by_me", {}); ch = m.get("checks", {})
        name = os.path.basename(d)
        what = str(m.get("what_breaks", m.get("title", "")))[:160].replace("|", "/").replace("\n", " ")
        files = ",".join(os.path.basename(x) for x in m.get("files", []))[:40]
        needs = str(m.get("needs_to_manifest", ""))[:160].replace("|", "/").replace("\n", " ")
        chs = "; ".join("%s: exit %s%s" % (k, v.get("exit"), (", `" + v["keys"][0][:70] + "`") if v.get("keys") else "") for k, v in ch.items())
        status = m.get("status_note", "")
        rows.append("| %s | %s (%s) | %s | %s | %s / %s | %s %s |" % (name, what, files, needs,
                    "pass" if cb.get("repo_tests_exit_with_change") == 0 else "FAIL", "pass" if cb.get("demo_exit_without_change") == 0 else "FAIL",
                    "fails" if cb.get("demo_exit_with_change") not in (0, None) else "passes", chs, status))
    return "\n".join(rows)

def benign_table():
    rows = ["| behaviour-preserving change | what changes below the property (site) | repo tests with change | checks run (all must stay silent) | alarms | note |",
            "|------------------------------|----------------------------------------|------------------------|-----------------------------------|--------|------|"]
    for d in sorted(glob.glob(os.path.join(ROOT, "benign", "C*-*"))):
        mf = os.path.join(d, "meta.json")
        if not os.path.exists(mf):
            continue
        m = json.load(open(mf)); cb = m.get("confirmed_by_me", {}); ch = m.get("checks", {})
        what = str(m.get("what_changes_internally", m.get("title", "")))[:220].replace("|", "/").replace("\n", " ")
        files = ",".join(os.path.basename(x) for x in m.get("files", []))[:40]
        bad = ["%s exit %s `%s`" % (k, v.get("exit"), (v.get("keys") or [""])[0][:60]) for k, v in ch.items() if v.get("exit") != 0]
        rows.append("| %s | %s (%s) | %s | %d | %s | %s |" % (os.path.basename(d), what, files,
                    "pass" if cb.get("repo_tests_exit_with_change") == 0 else "FAIL", len(ch), "; ".join(bad) if bad else "none", m.get("status_note", "")))
    return "\n".join(rows)

def cross_table():
    f = os.path.join(ROOT, "seeded", "cross_matrix.json")
    if not os.path.exists(f):
        return "(no cross matrix recorded)"
    m = json.load(open(f))
    ids = ["C%02d" % i for i in range(1, 21)]
    rows = ["| seeded change | caught by (quick tier, exit 1) | silent | other exits |", "|---|---|---|---|"]
    per_check = {c: 0 for c in ids}
    for name in sorted(m):
        r = m[name]
        hit = [c for c in ids if r.get(c, {}).get("exit") == 1]
        other = ["%s=%s" % (c, r[c]["exit"]) for c in ids if c in r and r[c]["exit"] not in (0, 1)]
        for c in hit:
            per_check[c] += 1
        own = name.split("-")[0]
        hit_s = " ".join(("**%s**" % c) if c == own else c for c in hit) or "—"
        rows.append("| %s | %s | %d | %s |" % (name, hit_s, sum(1 for c in ids if r.get(c, {}).get("exit") == 0), " ".join(other) or "—"))
    rows.append("")
    rows.append("Seeded changes caught per check (own and foreign): " + ", ".join("%s %d" % (c, per_check[c]) for c in ids) + ".")
    return "\n".join(rows)

def main():
    p = os.path.join(ROOT, "DESIGN.md"); s = open(p).read()
    for name, fn in (("evidence", evidence_table), ("seeded", seeded_table), ("benign", benign_table), ("cross", cross_table)):
        b, e = f"<!-- BEGIN:{name} -->", f"<!-- END:{name} -->"
        if b in s and e in s:
            s = s[:s.index(b) + len(b)] + "\n" + fn() + "\n" + s[s.index(e):]
    open(p, "w").write(s)
    print("DESIGN.md tables updated")

main()
