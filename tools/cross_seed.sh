#!/usr/bin/env bash
# tools/cross_seed.sh [seed dirs...]  — runs EVERY quick check against every seeded change
# (clone of /repo + patch, VERIF_REPO=<clone>) and records exit codes in seeded/cross_matrix.json.
set -u
V="$(cd "$(dirname "$0")/.." && pwd)"
S="${CROSS_DIR:-/tmp/cross_repo}"
[ -d "$S/.git" ] || git clone -q /repo "$S" || exit 2
seeds=("$@"); [ ${#seeds[@]} -eq 0 ] && seeds=("$V"/seeded/C*-*)
OUT="$V/seeded/cross_matrix.json"; [ -f "$OUT" ] || echo "{}" > "$OUT"
IDS=$(cat "$V/tools/built.txt")
for d in "${seeds[@]}"; do
  name=$(basename "$d"); [ -f "$d/patch.diff" ] || continue
  if [ -z "${FORCE:-}" ] && python3 -c "import json,sys; m=json.load(open('$OUT')); sys.exit(0 if '$name' in m and len(m['$name'])>=20 else 1)"; then continue; fi
  ( cd "$S" && git fetch -q origin && git checkout -q -f --detach origin/main 2>/dev/null || git checkout -q -f --detach "$(git -C /repo rev-parse HEAD)"; git clean -fdq -e .hcv-build; git apply "$d/patch.diff" ) || { echo "$name: patch does not apply at HEAD"; continue; }
  row="{}"
  for c in $IDS; do
    ( cd "$V" && VERIF_OUT_DIR=/tmp/cross_out_$$ VERIF_REPO="$S" VERIF_BUDGET_S=120 nice -n 5 ./check "$c" quick > /tmp/cross_$$.log 2>&1 ); e=$?
    k=$(grep -E "^  key=" /tmp/cross_$$.log | head -1 | sed -E 's/^  key=//; s/ section=.*//' | cut -c1-100)
    row=$(python3 -c "import json,sys; r=json.loads(sys.argv[1]); r[sys.argv[2]]={'exit':int(sys.argv[3]),'first_key':sys.argv[4]}; print(json.dumps(r))" "$row" "$c" "$e" "$k")
    rm -rf /tmp/cross_out_$$
  done
  flock "$OUT.lock" python3 -c "import json,sys; m=json.load(open('$OUT')); m['$name']=json.loads(sys.argv[1]); json.dump(m,open('$OUT','w'),indent=1)" "$row"
  echo "$name: $(python3 -c "import json,sys; r=json.loads(sys.argv[1]); print(' '.join(k for k,v in r.items() if v['exit']==1), '| machinery:', ' '.join(k for k,v in r.items() if v['exit'] not in (0,1)))" "$row")"
done
rm -f /tmp/cross_$$.log
