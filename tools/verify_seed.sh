#!/usr/bin/env bash
# tools/verify_seed.sh <prop-id lower, e.g. c02> <A|B> [check ids...]
# Confirms a seeded change (tests still pass, demo fails with / passes without) and runs the
# given checks (default: the property's own) against the changed tree via VERIF_REPO.
set -u
id="$1"; x="$2"; shift 2
ID="$(echo "$id" | tr a-z A-Z)"
checks=("$@"); [ ${#checks[@]} -eq 0 ] && checks=("$ID")
W="${SEED_DIR:-/tmp/seed_$id}"; O="$W/out/$x"; V="$(cd "$(dirname "$0")/.." && pwd)"
D="$V/seeded/$ID-$x"; mkdir -p "$D"
cd "$W" || exit 2
git checkout -q -- . ; git clean -fdq -e out
# bring the worktree to /repo's current HEAD (later "fix:" commits) when the patch still applies there
orig=$(git rev-parse HEAD); cur=$(git -C /repo rev-parse HEAD)
if [ "$orig" != "$cur" ]; then
  git checkout -q --detach "$cur" 2>/dev/null
  if ! git apply --check "$O/patch.diff" 2>/dev/null; then echo "patch does not apply at $cur, staying at $orig"; git checkout -q --detach "$orig"; fi
fi
cp "$O/demo.rs" "examples/seed_demo_$x.rs"
echo "== demo without change"; cargo run -q --offline --release --example "seed_demo_$x" > "$D/demo_without.log" 2>&1; d0=$?
git apply "$O/patch.diff" || { echo "patch does not apply"; exit 2; }
echo "== tests with change"; cargo test --workspace --offline > "$D/tests_with.log" 2>&1; t=$?
grep -E "^test result" "$D/tests_with.log"
echo "== demo with change"; cargo run -q --offline --release --example "seed_demo_$x" > "$D/demo_with.log" 2>&1; d1=$?
rm -f "examples/seed_demo_$x.rs"
res="{}"
for c in "${checks[@]}"; do
  echo "== check $c against the changed tree"
  rm -rf "$V/replays/$c"
  ( cd "$V" && VERIF_REPO="$W" VERIF_BUDGET_S=${VERIF_BUDGET_S:-$([ "${TIER:-quick}" = thorough ] && echo 1500 || echo 120)} ./check "$c" ${TIER:-quick} > "$D/check_${c}${TIER:+_$TIER}.log" 2>&1 ); e=$?
  keys=$(grep -E "^  key=" "$D/check_${c}${TIER:+_$TIER}.log" | sed -E 's/^  key=//; s/ section=.*//' | head -8 | python3 -c "import sys,json; print(json.dumps([l.strip() for l in sys.stdin]))")
  echo "   exit=$e keys=$keys" | cut -c1-400
  res=$(python3 -c "import json,sys; r=json.loads(sys.argv[1]); r[sys.argv[2]]={'exit':int(sys.argv[3]),'keys':json.loads(sys.argv[4])}; print(json.dumps(r))" "$res" "$c${TIER:+:$TIER}" "$e" "$keys")
  mkdir -p "$D/replays_$c"; cp "$V/replays/$c"/*.json "$D/replays_$c/" 2>/dev/null; ls "$D/replays_$c" | head -3 >/dev/null
  # keep at most 3 replay artefacts per check
  ls "$D/replays_$c" 2>/dev/null | tail -n +4 | while read f; do rm -f "$D/replays_$c/$f"; done
  rm -rf "$V/replays/$c"
  ( cd "$V" && git checkout -q -- "evidence/$c.json" 2>/dev/null )
done
git checkout -q -- . ; git clean -fdq -e out; rm -rf "$W/.hcv-build"
cp "$O/patch.diff" "$O/demo.rs" "$D/"
python3 - "$O/meta.json" "$D/meta.json" "$d0" "$t" "$d1" "$res" <<'PY'
import json,sys
src,dst,d0,t,d1,res=sys.argv[1:7]
try: m=json.load(open(src))
except Exception as e: m={"meta_unreadable":str(e)}
m["confirmed_by_me"]={"demo_exit_without_change":int(d0),"repo_tests_exit_with_change":int(t),"demo_exit_with_change":int(d1),
   "ran":["cargo run --example (without)","git apply patch.diff","cargo test --workspace --offline","cargo run --example (with)","VERIF_REPO=<worktree> ./check <ID> quick"]}
prev={}
try: prev=json.load(open(dst)).get("checks",{})
except Exception: pass
prev.update(json.loads(res)); m["checks"]=prev
try:
    old=json.load(open(dst))
    if "status_note" in old: m["status_note"]=old["status_note"]
except Exception: pass
json.dump(m,open(dst,"w"),indent=1)
print("confirmed: demo_without=%s tests_with=%s demo_with=%s checks=%s"%(d0,t,d1,res))
PY
rm -f "$D"/tests_with.log
