#!/usr/bin/env bash
# tools/prefix_replay.sh <ID> <commit-of-the-fix> [section-substring]
# Shows that check <ID> detects the defect repaired by <commit>: clones /repo, reverts the fix,
# runs the quick check against the clone and copies the replay artefacts to replays_fixed/<ID>/.
set -u
ID="$1"; C="$2"; SEC="${3:-}"
V="$(cd "$(dirname "$0")/.." && pwd)"
S="/tmp/prefix_${ID}_${C}"
rm -rf "$S"; git clone -q /repo "$S" || exit 2
git -C "$S" revert --no-edit "$C" >/dev/null 2>&1 || { echo "revert failed"; exit 2; }
rm -rf "$V/replays/$ID"
( cd "$V" && VERIF_REPO="$S" VERIF_SECTION="$SEC" VERIF_BUDGET_S=300 ./check "$ID" quick > "/tmp/prefix_${ID}_${C}.out" 2>&1 ); code=$?
echo "exit=$code"; grep -E "^VIOLATION|key=" "/tmp/prefix_${ID}_${C}.out" | head -20
mkdir -p "$V/replays_fixed/$ID"
if [ -d "$V/replays/$ID" ]; then cp "$V/replays/$ID"/*.json "$V/replays_fixed/$ID/" 2>/dev/null; fi
rm -rf "$S" "$V/replays/$ID"
# restore evidence written by the run against the clone
( cd "$V" && git checkout -- "evidence/$ID.json" 2>/dev/null )
