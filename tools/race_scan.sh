#!/usr/bin/env bash
# tools/race_scan.sh [seeds]   — SUPPLEMENTARY, not a registered check and not the deciding technique.
# The E3 explorer of C17 interleaves threads at RwLock operations only; that is sufficient provided nothing else is shared
# without synchronisation. This runs the bodies of the C17 scenarios (concurrent decryptions of sizes 5/3/2 on one Decryptor,
# concurrent relin / Galois key generation on one KeyGenerator, concurrent rotations on one Evaluator) FREE-RUNNING under
# miri's vector-clock data-race detector for a few scheduler seeds (nightly toolchain, offline). Alignment and stacked-borrows
# checks are off: the crate has two known findings of those kinds outside the listed properties (DESIGN §7, observations).
set -u
V="$(cd "$(dirname "$0")/.." && pwd)"; REPO="${VERIF_REPO:-/repo}"; W="$(mktemp -d /tmp/race_scan.XXXXXX)"
mkdir -p "$W/src"; sed "s#@REPO@#$REPO#" "$V/tools/race_scan/Cargo.toml.in" > "$W/Cargo.toml"; cp "$V/tools/race_scan/src/main.rs" "$W/src/"; cp "$REPO/Cargo.lock" "$W/" 2>/dev/null
cd "$W" && MIRIFLAGS="-Zmiri-disable-isolation -Zmiri-ignore-leaks -Zmiri-disable-alignment-check -Zmiri-disable-stacked-borrows -Zmiri-many-seeds=0..${1:-8} -Zmiri-preemption-rate=0.05" CARGO_NET_OFFLINE=true cargo +nightly miri run --offline 2>&1 | grep -E "^error|Data race|data race|miri_c17 done|race_scan done|Trying seed|exit" | head -40
e=${PIPESTATUS[0]}; cd /; rm -rf "$W"; exit $e
