// Free-running race detection (miri's data-race detector) on the bodies of the C17 scenarios: the E3 scheduler only
// interleaves at RwLock operations, which is sufficient only if nothing else is shared unsynchronised.
use heathcliff::*;
use std::sync::Arc;
fn main() {
    let n = 4usize;
    let mods: Vec<Modulus> = CoeffModulus::create(n, vec![20, 20, 20]);
    for scheme in [SchemeType::BFV, SchemeType::BGV] {
        let parms = EncryptionParameters::new(scheme).set_poly_modulus_degree(n).set_coeff_modulus(&mods).set_plain_modulus_u64(17);
        let ctx = HeContext::new(parms, true, SecurityLevel::None);
        assert!(ctx.parameters_set());
        let kg = Arc::new(KeyGenerator::new(ctx.clone()));
        let pk = kg.create_public_key(false);
        let enc = Encryptor::new(ctx.clone()).set_public_key(pk);
        let dec = Arc::new(Decryptor::new(ctx.clone(), kg.secret_key().clone()));
        let ev = Arc::new(Evaluator::new(ctx.clone()));
        let mut p = Plaintext::new();
        p.resize(2);
        p.data_mut()[0] = 3;
        p.data_mut()[1] = 5;
        let c2 = enc.encrypt_new(&p);
        let c3 = ev.multiply_new(&c2, &c2);
        let c5 = ev.multiply_new(&c3, &c3);
        // (1) concurrent decryptions of different sizes on one decryptor (secret-key power cache grows concurrently)
        let hs: Vec<_> = [c5.clone(), c3.clone(), c2.clone()]
            .into_iter()
            .map(|c| {
                let d = dec.clone();
                std::thread::spawn(move || d.decrypt_new(&c).data().to_vec())
            })
            .collect();
        let outs: Vec<Vec<u64>> = hs.into_iter().map(|h| h.join().unwrap()).collect();
        assert_eq!(outs[2][..2], [3, 5]);
        // (2) concurrent relin / Galois key generation on one key generator
        let k1 = kg.clone();
        let k2 = kg.clone();
        let h1 = std::thread::spawn(move || k1.create_relin_keys(false));
        let h2 = std::thread::spawn(move || k2.create_galois_keys(false));
        let rk = h1.join().unwrap();
        let gk = Arc::new(h2.join().unwrap());
        let r = ev.relinearize_new(&c3, &rk);
        assert_eq!(dec.decrypt_new(&r).data()[..3], dec.decrypt_new(&c3).data()[..3]);
        // (3) concurrent rotations on one evaluator (GaloisTool permutation-table cache fills concurrently)
        let c2n = if scheme == SchemeType::BGV { c2.clone() } else { c2.clone() };
        let hs: Vec<_> = [1isize, -1, 1]
            .into_iter()
            .map(|s| {
                let (e, g, c) = (ev.clone(), gk.clone(), c2n.clone());
                std::thread::spawn(move || e.rotate_rows_new(&c, s, &g))
            })
            .collect();
        let rs: Vec<Ciphertext> = hs.into_iter().map(|h| h.join().unwrap()).collect();
        assert_eq!(dec.decrypt_new(&rs[0]).data(), dec.decrypt_new(&rs[2]).data());
    }
    println!("race_scan done");
}
