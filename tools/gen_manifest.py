#!/usr/bin/env python3
"""Generates /verif/MANIFEST.json. Edit BUILT / the per-property texts here, then run it."""
import json, os, subprocess

ROOT = os.path.dirname(os.path.dirname(os.path.abspath(__file__)))

# properties whose check exists and passes on the unchanged tree
BUILT = os.environ.get("BUILT", "").split() or [l.strip() for l in open(os.path.join(ROOT, "tools", "built.txt")) if l.strip()]

P = {
 "C01": dict(engine="E1", technique="bounded exhaustive enumeration (parameter sets x plaintext alphabet x encryption mode x level x noise script) on the real Encryptor/Decryptor",
             text="Every case of a finite product (small-parameter universe x plaintext alphabet incl. complete t^N spaces for tiny (N,t) x {pk, sk, sk+seed, zero, zero-at-level, explicit u_prng} x every chain level x extremal noise scripts) is encrypted and decrypted by the real code and compared with the plaintext (CKKS: a-priori bound).",
             note="parameter values outside the enumerated universe and noise vectors other than Real(seeded)/Zero/AllMax/AllMin/Alt are not covered; hooks H1/H2 make each case deterministic", ref="5/C01"),
 "C02": dict(engine="E2", technique="explicit-state BFS over operation programs on the real Evaluator (concrete depth-2 closure + abstract metadata fixpoint), conformance to a Z_t[X]/(X^N+1) shadow on every transition",
             text="All programs of <=2 operations over the alphabet are executed (concrete closure) and the abstract state space (size, level, representation, BGV factor) is explored to fixpoint with every (operation, abstract operand tuple) executed on real ciphertexts; each transition is compared with the ring shadow and the predicted metadata.",
             note="a-priori noise bound decides when decryption is demanded; abstraction argument in DESIGN 3/E2", ref="5/C02"),
 "C03": dict(engine="E2", technique="explicit-state BFS over CKKS operation programs on the real Evaluator with a complex shadow, exact scale oracle and refusal table",
             text="Closure of CKKS programs (add, sub, multiply, square, plain variants, relinearize, rescale, mod switch) over slot alphabets, scales and chains; every transition compared with the complex shadow within the worst-case bound, scale compared for exact f64 equality, refusals predicted.",
             note="error bound is the model's slot-domain calculus; borderline scale pairs are outside the alphabet", ref="5/C03"),
 "C04": dict(engine="E1", technique="bounded exhaustive enumeration of all odd Galois elements / all rotation steps / key sets / levels / schemes on the real Evaluator",
             text="Every odd g<2N, every step, direct and NAF-composed keys, both representations, every level, three schemes, key switching from an independent key: result compared with X->X^g on the shadow polynomial and with the slot permutation.",
             note="N in {4,8,16} (thorough to 64); plaintexts are unit monomials / unit slots plus dense ones", ref="5/C04"),
 "C05": dict(engine="E1", technique="bounded exhaustive enumeration of all (source level, target level) pairs x sizes x schemes x API forms with a per-call watchdog",
             text="All ordered level pairs of chains of length 1..4 (6 thorough), ciphertext sizes 2..4, three schemes, every API form of mod_switch*/rescale*: termination (deadline), target level, message, scale/factor bookkeeping and refusals are checked on the real code.",
             note="a hung call is detected by the engine's watchdog and reported as non-termination", ref="5/C05"),
 "C06": dict(engine="E2+E1", technique="explicit-state exploration (every operation x reachable operand state x three API forms) plus exhaustive single-field corruption matrix",
             text="On every transition of the C02/C03 explorations: is_valid_for, byte equality of in-place/destination/_new forms, operands untouched; every entry point x operand position x single-field corruption must be refused.",
             note="refusal = panic or Err; the 26 corruptions are the enum `Corr` of props/c06.rs (DESIGN 5a/C06(b)); section `positions` sets one residue to its modulus at every word position", ref="5/C06"),
 "C07": dict(engine="E2", technique="explicit-state exploration of operation programs with an exact big-integer noise oracle evaluated in every reached state",
             text="For every state reached by program exploration (down to zero budget) the reported invariant noise budget is compared with the budget computed from the exact phase with independent big-integer arithmetic; fresh / negate / k-fold add bounds are checked.",
             note="secret key recovered by the naive inverse transform; BigU self-tested", ref="5/C07"),
 "C08": dict(engine="E1", technique="bounded exhaustive enumeration: all moduli < 2^7 x all operand pairs, boundary moduli x boundary operands, all word-alphabet operands for the multi-word helpers",
             text="Every word-level modular primitive on ALL operand pairs for ALL moduli below 2^7 (2^8 thorough) and on a boundary product up to 61 bits; every multi-word helper of util::basic on all operand (pairs) over a carry/borrow word alphabet for lengths 1..4 (8 thorough; structured families up to 65 (129) words in `big_multi`), every shift amount, every result length — against u128 / BigU.",
             note="moduli above 2^7 only on the boundary set; u128 and the self-tested BigU are trusted", ref="5/C08"),
 "C09": dict(engine="E1", technique="bounded exhaustive enumeration: all unit vectors (linearity), complete q^N spaces for tiny (N,q), extreme vectors, all first random draws of the root search (hook H3)",
             text="Forward/inverse/lazy transforms and the polysmallmod wrappers on every unit vector for N=2..1024 (8192 thorough) and several moduli, on all vectors for tiny (N,q), on lazy-range maxima; compared with the naive O(N^2) evaluation at psi^(2 brv(i)+1); root determinism by enumerating every draw.",
             note="composite moduli are out of the property's domain (observations only)", ref="5/C09"),
 "C10": dict(engine="E1", technique="bounded exhaustive enumeration: all integers below the base product for small bases, boundary residues for 60/61-bit bases, against big-integer specifications",
             text="RNSBase compose/decompose and every RNSTool routine (fastbconv_m_tilde, sm_mrq, fast_floor, fastbconv_sk, divide_and_round_q_last (ntt), mod_t_and_divide_q_last (ntt), decrypt_scale_and_round, decrypt_mod_t) are compared with BigU specifications with stated error terms on complete small spaces and boundary sets.",
             note="specifications derived in DESIGN 5/C10", ref="5/C10"),
 "C11": dict(engine="E1", technique="bounded exhaustive enumeration: unit slot vectors, complete t^N spaces for tiny (N,t), all rotation steps",
             text="decode(encode(v))=v, slot-wise sums/products vs. naive ring arithmetic, Galois action vs. matrix rotation for every step, polynomial encoding for boundary values; slot i defined independently as m(psi^(±3^i)).",
             note="complete spaces for tiny (N,t); unit / length / step families up to N = 8192 in both tiers (quick: two (scheme, t) combinations at the largest degrees)", ref="5/C11"),
 "C12": dict(engine="E1", technique="bounded exhaustive enumeration: value alphabet^slots x scale grid crossing the 64/128-bit paths x chains x levels x five entry points",
             text="Each produced plaintext is CRT-composed with BigU and compared with the rounded scaled naive inverse embedding; decode returns the input within the bound; refusals checked.",
             note="naive embedding uses f64 sin/cos", ref="5/C12"),
 "C13": dict(engine="E1", technique="bounded exhaustive enumeration of the small-parameter universe of builder-constructible parameter objects against an independent validation predicate",
             text="Every parameter object of a finite universe (schemes x degrees x modulus lists incl. composites/duplicates x plain moduli x security levels x flags) is validated by the real HeContext and compared with an independent predicate; chain structure, constants, ids and prime generation are checked.",
             note="composite moduli: observations only (scope decision in DESIGN 5/C13)", ref="5/C13"),
 "C14": dict(engine="E1", technique="bounded exhaustive enumeration: object kind x byte-width boundary parameter sets x level x size x form x seeded x all term subsets",
             text="Every serializable object kind is written and read back by the real code over parameter sets covering every residue byte width; field-wise equality, serialized_size = written = consumed, back-to-back streams, foreign context, all 2^N term subsets for N<=8.",
             note="in-memory complete streams; faults are C15", ref="5/C14"),
 "C15": dict(engine="E4", technique="exhaustive fault-sequence enumeration: every write call x every short count / failure, every truncation offset x read limit x one error at every read call; 1, 2 and (short encodings) 3 deviations",
             text="For every object kind, every single deviation (pairs up to 420 / 1600 write calls, triples up to 26 / 72) of the writer from accept-everything and every truncation offset of the reader is executed on the real serializers: complete-or-error, never a panic.",
             note="writers obey the std::io::Write contract", ref="5/C15"),
 "C16": dict(engine="E1", technique="bounded exhaustive enumeration: all chunkings over a chunk alphabet across refills, all operation histories <=3 (scripted entropy) and <=2 / <=3 on the library's own entropy path, samplers as functions of all RNG byte patterns",
             text="BlakeRNG output vs. an independent blake3 recomputation under every chunking; freshness of masks/seeds over all histories of length <=3; exact push-forward distribution of the samplers by enumerating their RNG inputs.",
             note="statistical quality beyond these exact statements is out of scope. The samplers are compared pointwise with the reference mapping of the pinned commit first; when the mapping differs (a refactor may read the generator differently) the structure is discovered by probing and the exhaustive families are rebuilt on it (all 2^21 patterns of either half of the binomial sampler, all 2^32 u32 draws of the ternary one); a structure that is not recognised is reported as undecided (exhaustive=false), never as a violation; the byte stream itself is compared with an independent blake3 recomputation", ref="5/C16"),
 "C17": dict(engine="E3", technique="stateless model checking: depth-first enumeration of all thread schedules at the RwLock operations of the three caches (iterated preemption bound) on the real code",
             text="All interleavings of 2-3 threads at every lock acquisition and release (decryption pairs / triples and key-generation pairs unbounded; Galois-key triples, rotation pairs and mixed pairs preemption-bounded, bound stated per scenario in the evidence; 4 threads at bound 2 in the thorough tier) of the secret-key-power caches and the Galois table cache are executed on real OS threads under a cooperative scheduler; each thread's result must equal the sequential result, cache lengths must be monotone, no deadlock.",
             note="lock-operation granularity; weak memory not modelled (no atomics in the crate). Both assumptions are re-established on the examined tree by section sync_inventory: a shared-state primitive outside the hooked RwLocks (Mutex, atomic, OnceLock, thread_local, static mut ...) makes the run report NOT-EXHAUSTIVE / exhaustive=false, never a violation (seeded change C16-I, DESIGN 6 round 5)", ref="5/C17"),
 "C18": dict(engine="E5", technique="explicit-state BFS over message delivery orders (subset lattice), states materialised by replaying histories on the real protocol objects",
             text="For n=2..3 (4 thorough) every delivery order of every protocol round is explored; canonical states reached by different histories must agree, incomplete parties must refuse to finish, final outputs are checked against the summed key / the plaintext.",
             note="n>=5 only along a covering family (labelled non-exhaustive); every sender's round message is produced at its first delivery in the history, i.e. possibly after that party has received (send-after-receive orders are covered)", ref="5/C18"),
 "C19": dict(engine="E1", technique="bounded exhaustive enumeration: all indices x all pack counts x all trace depths x three schemes",
             text="extract/assemble for every index and representation, field trace for every l, packing for every k<=N: decrypted coefficient placement compared with the shadow polynomial.",
             note="N in {4,8,16} (thorough to 64)", ref="5/C19"),
 "C20": dict(engine="E1", technique="bounded exhaustive enumeration of all shapes in a box per helper x objective x packing x transport, unit-matrix pairs (bilinearity) + dense fills",
             text="Every shape (m,r,n) / (batch, channels, image, kernel) in a box is run through the real helpers at small N and compared with a u128 reference product / correlation; encode_outputs/decrypt_outputs inverse; RNS-plaintext wrapper on complete value spaces.",
             note="N >= 128: structured shape families (`big_*` sections), not the full box", ref="5/C20"),
}

def main():
    checks = []
    na = []
    for pid in sorted(P):
        p = P[pid]
        if pid in BUILT:
            checks.append({
                "property_id": pid,
                "quick_cmd": f"./check {pid} quick",
                "thorough_cmd": f"./check {pid} thorough",
                "evidence_file": f"/verif/evidence/{pid}.json",
                "replay_cmd_template": f"./check {pid} --replay {{path}}",
                "engine": p["engine"],
                "level_claimed": {
                    "category": "fault_enumeration" if pid == "C15" else "model_checking",
                    "text": p["text"],
                    "design_ref": "DESIGN.md section " + p["ref"] + " (design) and section 5a (as built)",
                },
                "level_note": p["note"] + ("" if pid in ("C16", "C17") else "; complete products at N <= 64 / <= 6 primes, production sizes (N up to 8192+, up to 18-64 primes, long inputs / containers / many parties) by structured exhaustive families (every unit vector, length, step, count, level), see DESIGN 5a"),
                "technique": p["technique"],
            })
        else:
            na.append({"property_id": pid, "reason": "check not built yet at this commit (planned: " + p["technique"] + ")"})
    commits = subprocess.run(["git", "-C", "/repo", "log", "--format=%h %s", "--grep=^verif hooks"], capture_output=True, text=True).stdout.strip().splitlines()
    m = {
        "version": 1,
        "setup_cmd": "./check --setup",
        "hooks": {
            "guard": "cargo feature \"verif\" of crate heathcliff (default off)",
            "enable": "the harness crate depends on heathcliff with features=[\"verif\"] (path = /repo); ./check rebuilds it from the working tree on every run",
            "baseline_off_cmd": "cd /repo && cargo test --workspace --no-fail-fast --offline",
            "source_commits": [c.split()[0] for c in commits],
            "add_only": False,
        },
        "engines": [
            {"name": "E1", "path": "harness/src/engine.rs", "serves_properties": [k for k in sorted(P) if "E1" in P[k]["engine"] and k in BUILT], "kind_free_text": "parallel exhaustive product enumerator over finite alphabets on the real code, per-case watchdog, determinism self-test"},
            {"name": "E2", "path": "harness/src/e2.rs", "serves_properties": [k for k in sorted(P) if "E2" in P[k]["engine"] and k in BUILT], "kind_free_text": "explicit-state exploration of operation programs (real Evaluator), concrete + abstract closure"},
            {"name": "E3", "path": "harness/src/sched.rs", "serves_properties": [k for k in sorted(P) if "E3" in P[k]["engine"] and k in BUILT], "kind_free_text": "controlled scheduler: DFS over thread schedules at RwLock operations, iterated preemption bound"},
            {"name": "E4", "path": "harness/src/props/c15.rs", "serves_properties": [k for k in sorted(P) if "E4" in P[k]["engine"] and k in BUILT], "kind_free_text": "fault-sequence enumerator for Write/Read"},
            {"name": "E5", "path": "harness/src/props/c18.rs", "serves_properties": [k for k in sorted(P) if "E5" in P[k]["engine"] and k in BUILT], "kind_free_text": "explicit-state BFS over protocol delivery orders"},
        ],
        "checks": checks,
        "notes": "add_only is false only because three `use std::sync::RwLock` lines are split into cfg(not(feature))/cfg(feature) pairs so that the caches use the scheduler-aware wrapper in the hooked build; everything else is added code. Exit code 2 of a check = machinery error (never a verdict). known_findings.json lists recorded (known) and repaired (fixed) defects; replays_fixed/ holds the replay artefacts of repaired defects, re-executed on every run.",
        "not_applicable": na,
    }
    json.dump(m, open(os.path.join(ROOT, "MANIFEST.json"), "w"), indent=1)
    print("MANIFEST.json:", len(checks), "checks,", len(na), "not_applicable")

main()
