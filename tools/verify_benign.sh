#!/usr/bin/env bash
# tools/verify_benign.sh <prop-id lower, e.g. c14> <P|Q> [check ids...]
# A behaviour-PRESERVING change (made by an agent that saw only the property text): the repo tests must
# pass with it and EVERY check (default: all built ones, quick tier; TIER=thorough for the thorough tier)
# must stay silent. Anything else is either a change that is not benign after all (then it is kept under
# seeded/ as a breaking change, with the argument) or a false alarm of ours (then the check is corrected, §10).
set -u
id="$1"; x="$2"; shift 2
ID="$(echo "$id" | tr a-z A-Z)"
V="$(cd "$(dirname "$0")/.." && pwd)"
checks=("$@"); [ ${#checks[@]} -eq 0 ] && checks=($(cat "$V/tools/built.txt"))
W="${BENIGN_DIR:-/tmp/benign_$id}"; O="$W/out/$x"
D="$V/benign/$ID-$x"; mkdir -p "$D"
cd "$W" || exit 2
git checkout -q -- . ; git clean -fdq -e out -e .hcv-build
cur=$(git -C /repo rev-parse HEAD)
[ "$(git rev-parse HEAD)" = "$cur" ] || git checkout -q --detach "$cur"
git apply "$O/patch.diff" || { echo "patch does not apply"; exit 2; }
echo "== tests with change"; cargo test --workspace --offline > "$D/tests_with.log" 2>&1; t=$?
grep -E "^test result" "$D/tests_with.log"
rm -rf "$W/target"
res="{}"
tier="${TIER:-quick}"
for c in "${checks[@]}"; do
  out=/tmp/benign_out_$$; rm -rf "$out"
  ( cd "$V" && VERIF_OUT_DIR="$out" VERIF_REPO="$W" VERIF_BUDGET_S=${VERIF_BUDGET_S:-$([ "$tier" = thorough ] && echo 1500 || echo 120)} ./check "$c" "$tier" > "$D/check_${c}_$tier.log" 2>&1 ); e=$?
  keys=$(grep -E "^  key=" "$D/check_${c}_$tier.log" | sed -E 's/^  key=//; s/ section=.*//' | head -8 | python3 -c "import sys,json; print(json.dumps([l.strip()[:200] for l in sys.stdin]))")
  exh=$(python3 -c "import json; print(json.load(open('$out/evidence/$c.json'))['coverage'].get('exhaustive'))" 2>/dev/null)
  echo "   $c $tier exit=$e exhaustive=$exh keys=$keys" | cut -c1-300
  res=$(python3 -c "import json,sys; r=json.loads(sys.argv[1]); r[sys.argv[2]]={'exit':int(sys.argv[3]),'exhaustive':sys.argv[5],'keys':json.loads(sys.argv[4])}; print(json.dumps(r))" "$res" "$c:$tier" "$e" "$keys" "$exh")
  if [ "$e" != 0 ]; then mkdir -p "$D/replays_$c"; ls "$out/replays/$c"/*.json 2>/dev/null | head -3 | while read f; do cp "$f" "$D/replays_$c/"; done; else rm -f "$D/check_${c}_$tier.log"; fi
  rm -rf "$out"
done
git checkout -q -- . ; git clean -fdq -e out; rm -rf "$W/.hcv-build"
cp "$O/patch.diff" "$D/"
python3 - "$O/meta.json" "$D/meta.json" "$t" "$res" <<'PY'
import json,sys
src,dst,t,res=sys.argv[1:5]
try: m=json.load(open(src))
except Exception as e: m={"meta_unreadable":str(e)}
old={}
try: old=json.load(open(dst))
except Exception: pass
m["confirmed_by_me"]={"repo_tests_exit_with_change":int(t)}
prev=old.get("checks",{}); prev.update(json.loads(res)); m["checks"]=prev
if "status_note" in old: m["status_note"]=old["status_note"]
json.dump(m,open(dst,"w"),indent=1)
bad={k:v for k,v in json.loads(res).items() if v["exit"]!=0}
print("benign %s: tests=%s alarms=%s"%(dst.split('/')[-2],t,json.dumps(bad)[:600]))
PY
rm -f "$D"/tests_with.log
